"""C03 — evaluation counts are exact and evaluation budgets are hard limits."""
from __future__ import annotations

import ast
import re

from ..core import INCONCLUSIVE, OK, VIOLATION, Ctx, is_self_attr, local_defs, canon
from ..model import AnalysisError, Inconclusive, body_walk, norm
from . import c16
from .wrappers import counter_attr, evaluate_summaries

EXPLANATION = """
Static decision of the accounting clause of C03: (R03.1) wrapper path summaries — counting wrappers
increment by exactly 1 iff they forward; the cutoff wrapper's only non-forwarding path is guarded by
counter >= cutoff, the counter only grows by 1 from 0 and the cutoff is constructor-only, hence at
most N forwards; (R03.2) every problem handed to an Individual / population / engine / scipy inside a
deme is the deme's own counting wrapper `self._problem`, assigned once to
EvalCountingProblem(config.problem), and no deme code reads config.problem otherwise; (R03.3) deme and
tree totals: AbstractDeme.n_evaluations returns the wrapper's counter; overrides are accumulators fed
only by `result.nfev` of a scipy call whose objective forwards every call to self._problem.evaluate;
DemeTree.n_evaluations and the per-level sums range over all demes; (R03.4) in minimize() the value
bound to nfev is, under each assumption on maxfun, a counter that is exact for `fun` (no wrapper
strictly below it can refuse); (R03.5) with maxfun every level config receives the cutoff-wrapped
problem and the GSC is built from the same maxfun; (R03.6) eval-limit stop conditions read the live
tree/deme counters over all demes; (R03.7) the objective slot is invoked only by FunctionProblem.evaluate.
"""
CLAIM = """Decides the accounting clause: wrapper counting law and cutoff guard (at most N forwards); every problem used inside a deme is its own always-forwarding counting wrapper; deme/tree/level totals are sums over all demes of exact counters (LocalDeme: accumulator of scipy's nfev for an objective that forwards exactly once); in minimize() nfev is bound, under each assumption on maxfun, to a counter with no refusing wrapper below it, every level receives the maxfun cutoff wrapper and the GSC uses the same maxfun; eval-limit GSCs read the live totals; the objective slot is invoked only by FunctionProblem.evaluate."""
NOTE = """scipy's result.nfev equals its number of objective calls (external summary). The behaviour of user-composed stacks outside minimize() follows from the per-wrapper laws."""
TECHNIQUE = "per-path wrapper summaries + provenance/who-may-call rules + abstract evaluation of minimize() under both budget assumptions (ast dataflow)"
ASSUMPTIONS = ["scipy.optimize.minimize reports in result.nfev the number of calls it made to its objective (trusted external summary)"]


def r03_1(ctx: Ctx):
    """R03.1 wrapper path summaries (counting law, cutoff guard) — shared with C16."""
    out = []
    for o in c16.r16_2(ctx) + c16.r16_3(ctx):
        o.rule = "R03.1"
        out.append(o)
    return out


def _deme_classes(ctx):
    base = ctx.prog.cls("AbstractDeme")
    return [base] + ctx.prog.subclasses(base)


def r03_2(ctx: Ctx):
    """R03.2 every evaluation made by a deme goes through its counting wrapper."""
    obs = []
    base = ctx.prog.cls("AbstractDeme")
    init = base.methods.get("__init__")
    if init is None:
        raise AnalysisError("AbstractDeme.__init__ vanished")
    selfn = init.self_name()
    # _problem assigned once, in AbstractDeme.__init__, to EvalCountingProblem(<...>.problem)
    stores = []
    for ci in _deme_classes(ctx):
        for f in ctx.prog.functions_in(ci):
            sn = f.self_name() if f.parent is None else f.parent.self_name()
            for n in body_walk(f.node):
                tg = n.targets if isinstance(n, ast.Assign) else [n.target] if isinstance(n, (ast.AugAssign, ast.AnnAssign)) else []
                for t in tg:
                    if is_self_attr(t, "_problem", sn or "self"):
                        stores.append((f, n))
    for f, n in stores:
        v = getattr(n, "value", None)
        ok = (
            f is init
            and isinstance(v, ast.Call)
            and isinstance(ctx.prog.resolve_class_expr(v.func, f.module), type(base))
            and ctx.prog.resolve_class_expr(v.func, f.module) is not None
            and ctx.prog.is_subclass(ctx.prog.resolve_class_expr(v.func, f.module), ctx.prog.cls("EvalCountingProblem"))
            and len(v.args) == 1
            and isinstance(v.args[0], ast.Attribute)
            and v.args[0].attr == "problem"
        )
        undecided = False
        if ok:
            # the wrapper must be a plain counting wrapper (always forwarding), not a refusing one
            wcls = ctx.prog.resolve_class_expr(v.func, f.module)
            try:
                sums = evaluate_summaries(ctx, wcls)
            except Inconclusive:
                sums, undecided = [], True
            if not all(s.pair() == (1, 1) for s in sums):
                ok = False
                # the forwarding is decided by hook methods of the wrapper (a template method): which hook an instance of
                # exactly this class runs is not resolved by the path summaries
                ev = ctx.prog.lookup_method(wcls, "evaluate")
                if ev is not None and any(isinstance(c_, ast.Call) and isinstance(c_.func, ast.Attribute) and isinstance(c_.func.value, ast.Name) and c_.func.value.id == ev.self_name() and c_.func.attr.startswith("_") for x_ in body_walk(ev.node) if isinstance(x_, (ast.If, ast.While, ast.IfExp)) for c_ in ast.walk(x_.test)):
                    undecided = True
        if undecided and not ok:
            obs.append(ctx.ob("R03.2", f, n, status=INCONCLUSIVE, detail=f"the deme's counting wrapper `{norm(v.func)}` decides through hook methods whether it forwards: not followed"))
            continue
        obs.append(ctx.ob("R03.2", f, n, status=OK if ok else VIOLATION, detail="deme problem = EvalCountingProblem(config.problem), always forwarding" if ok else f"the deme's counting wrapper is (re)bound unexpectedly: {norm(n)}"))
    if not any(f is init for f, _ in stores):
        raise AnalysisError("AbstractDeme.__init__ no longer assigns self._problem")
    # every problem argument inside deme classes is self._problem
    n_sites = 0
    for ci in _deme_classes(ctx):
        for f in ctx.prog.functions_in(ci):
            sn = (f.self_name() if f.parent is None else f.parent.self_name()) or "self"
            for c in body_walk(f.node):
                if not isinstance(c, ast.Call):
                    continue
                callee = norm(c.func)
                is_ind = callee.split(".")[-1] in ("Individual", "create_population") or callee.endswith("Population")
                prob_args = [k.value for k in c.keywords if k.arg == "problem"]
                if callee.split(".")[-1] == "Individual" and len(c.args) >= 2:
                    prob_args.append(c.args[1])
                if callee.split(".")[-1] == "create_population" and len(c.args) >= 2:
                    prob_args.append(c.args[1])
                for a in prob_args:
                    n_sites += 1
                    ok = is_self_attr(a, "_problem", sn)
                    obs.append(ctx.ob("R03.2", f, c, status=OK if ok else VIOLATION, detail="problem argument is the deme's counting wrapper" if ok else f"`{callee}` is given `{norm(a)}` instead of self._problem: its evaluations are not counted by the deme"))
                if is_ind and not prob_args and callee.split(".")[-1] == "Individual":
                    obs.append(ctx.ob("R03.2", f, c, status=INCONCLUSIVE, detail="Individual constructed without a recognisable problem argument"))
            # reads of the level's raw problem
            for a in body_walk(f.node):
                if isinstance(a, ast.Attribute) and a.attr == "problem" and isinstance(a.ctx, ast.Load):
                    bt = ctx.res.type_of(a.value, f)
                    is_cfg = False
                    for t in ([] if bt is None else ([bt] if bt[0] != "union" else list(bt[1]))):
                        if t[0] == "inst":
                            c2 = ctx.prog.classes.get(t[1])
                            if c2 is not None and ctx.prog.is_subclass(c2, ctx.prog.cls("BaseLevelConfig")):
                                is_cfg = True
                    if is_cfg:
                        allowed = f is init and any(isinstance(n, (ast.Assign, ast.AnnAssign)) and any(a is x for x in ast.walk(n)) and any(is_self_attr(t, "_problem", selfn) for t in (n.targets if isinstance(n, ast.Assign) else [n.target])) for n in body_walk(f.node))
                        obs.append(ctx.ob("R03.2", f, a, status=OK if allowed else VIOLATION, detail="raw level problem read only to build the counting wrapper" if allowed else f"deme code reads the level's raw problem `{norm(a)}` (evaluations through it bypass the deme's counter)"))
            # objective handed to external optimisers
            for cs in ctx.res.callsites(f):
                if cs.external and cs.external.startswith("scipy.optimize.") and isinstance(cs.node, ast.Call):
                    n_sites += 1
                    from ..core import effective_keywords

                    fun_arg = cs.node.args[0] if cs.node.args else effective_keywords(cs.node, local_defs(f)).get("fun")
                    ok, why = _objective_forwards_to_wrapper(ctx, f, fun_arg, sn) if fun_arg is not None else (None, "no objective argument found")
                    obs.append(ctx.ob("R03.2", f, cs.node, status=OK if ok else INCONCLUSIVE if ok is None else VIOLATION, detail="scipy objective forwards every call to self._problem.evaluate" if ok else f"scipy objective {why}"))
    if n_sites < 14:
        raise AnalysisError(f"only {n_sites} problem-argument sites found in deme classes (>= 14 confirmed by hand)")
    return obs


def _objective_forwards_to_wrapper(ctx, f, arg, selfn):
    """fun is self._problem.evaluate, or a lambda / local def / private method whose every path calls it exactly once.
    Returns (True, "") | (False, reason) | (None, reason) — None: the objective has a form the analyser does not understand."""
    from .common import objective_function

    kind, node, owner, rets = objective_function(ctx, f, arg)
    if kind == "method-ref":
        if node.attr == "evaluate" and is_self_attr(node.value, "_problem", selfn):
            return True, ""
        return False, f"`{norm(node)}` is not the deme's counting wrapper: scipy's calls are not counted by this deme"
    if kind == "unknown":
        return None, f"`{norm(arg)}` cannot be resolved to a function"
    osn = owner.self_name() if owner is not None and owner.cls is not None and owner.parent is None else selfn
    body = [ast.Return(value=node.body)] if isinstance(node, ast.Lambda) else node.body
    calls = [c for st in body for c in ast.walk(st) if isinstance(c, ast.Call) and isinstance(c.func, ast.Attribute) and c.func.attr == "evaluate" and is_self_attr(c.func.value, "_problem", osn)]
    other_evals = [c for st in body for c in ast.walk(st) if isinstance(c, ast.Call) and isinstance(c.func, ast.Attribute) and c.func.attr == "evaluate" and c not in calls]
    conds = [x for st in body for x in ast.walk(st) if isinstance(x, (ast.If, ast.IfExp, ast.While, ast.For, ast.Try, ast.BoolOp))]
    if other_evals:
        return False, f"`{norm(arg)}` evaluates through `{norm(other_evals[0].func)}`, not through the deme's counting wrapper"
    if len(calls) == 1 and not any(any(c is y for y in ast.walk(x)) for x in conds for c in calls):
        return True, ""
    if len(calls) == 0:
        return False, f"`{norm(arg)}` never calls self._problem.evaluate"
    return False, f"`{norm(arg)}` calls self._problem.evaluate {len(calls)} time(s), conditionally: scipy's nfev would not equal the wrapper's count"


def r03_3(ctx: Ctx):
    """R03.3 counter sources: deme accessor = wrapper counter (tabled override: scipy nfev accumulator); tree and level totals over all demes."""
    obs = []
    base = ctx.prog.cls("AbstractDeme")
    m = base.methods.get("n_evaluations")
    if m is None:
        raise AnalysisError("AbstractDeme.n_evaluations vanished")
    rets = [n for n in body_walk(m.node) if isinstance(n, ast.Return)]
    ok = len(rets) == 1 and norm(rets[0].value) == f"{m.self_name()}._problem.n_evaluations"
    definite = len(rets) == 1 and (isinstance(rets[0].value, ast.Constant) or (isinstance(rets[0].value, ast.Call) and norm(rets[0].value.func) == "len"))
    obs.append(ctx.ob("R03.3", m, m.node, status=OK if ok else VIOLATION if definite else INCONCLUSIVE, detail="deme count = its wrapper's counter" if ok else f"AbstractDeme.n_evaluations returns `{norm(rets[0].value) if rets else '?'}`", construct="deme-count"))
    for ci in ctx.prog.subclasses(base):
        if "n_evaluations" not in ci.methods:
            continue
        o = ci.methods["n_evaluations"]
        sn = o.self_name()
        rets = [n for n in body_walk(o.node) if isinstance(n, ast.Return)]
        if len(rets) == 1 and norm(rets[0].value) == f"{sn}._problem.n_evaluations":
            obs.append(ctx.ob("R03.3", o, o.node, detail="override returns the wrapper's counter", construct=f"{ci.name}.count"))
            continue
        if not (len(rets) == 1 and is_self_attr(rets[0].value, None, sn)):
            const = len(rets) == 1 and isinstance(rets[0].value, ast.Constant)
            obs.append(ctx.ob("R03.3", o, o.node, status=VIOLATION if const else INCONCLUSIVE, detail=f"{ci.name}.n_evaluations returns `{norm(rets[0].value) if rets else '?'}`" + ("" if const else ": cannot relate it to the evaluations the deme makes"), construct=f"{ci.name}.count"))
            continue
        acc = rets[0].value.attr
        # accumulator: 0 in __init__, `+= <r>.nfev` where r is the result of a scipy call with a forwarding objective
        bad = []
        unknown = []
        n_feed = 0
        for f in ctx.prog.functions_in(ci):
            fsn = (f.self_name() if f.parent is None else f.parent.self_name()) or "self"
            defs = local_defs(f)
            for n in body_walk(f.node):
                tg = n.targets if isinstance(n, ast.Assign) else [n.target] if isinstance(n, (ast.AugAssign, ast.AnnAssign)) else []
                for t in tg:
                    if not is_self_attr(t, acc, fsn):
                        continue
                    if f.name == "__init__" and isinstance(n, (ast.Assign, ast.AnnAssign)) and isinstance(n.value, ast.Constant) and n.value.value == 0:
                        continue
                    incr = n.value if isinstance(n, ast.AugAssign) and isinstance(n.op, ast.Add) else None
                    hops = 0
                    while isinstance(incr, ast.Name) and incr.id in defs and len(defs[incr.id]) == 1 and hops < 4:
                        incr = defs[incr.id][0]
                        hops += 1
                    if incr is not None and isinstance(incr, ast.Attribute) and incr.attr == "nfev" and isinstance(incr.value, (ast.Name, ast.Call)):
                        src = defs.get(incr.value.id, []) if isinstance(incr.value, ast.Name) else [incr.value]
                        good = len(src) == 1 and isinstance(src[0], ast.Call) and any(cs.node is src[0] and cs.external and cs.external.startswith("scipy.optimize.") for cs in ctx.res.callsites(f))
                        if good:
                            from ..core import effective_keywords

                            fun_arg = src[0].args[0] if src[0].args else effective_keywords(src[0], defs).get("fun")
                            okf, why = _objective_forwards_to_wrapper(ctx, f, fun_arg, fsn) if fun_arg is not None else (None, "no objective found")
                            if okf:
                                n_feed += 1
                                objective_owner = fun_arg
                                continue
                            (bad if okf is False else unknown).append((n, "accumulates nfev of an optimiser whose objective " + why))
                            continue
                        unknown.append((n, f"cannot resolve the optimiser run behind `{norm(n)}`"))
                        continue
                    if incr is not None and isinstance(incr, ast.BinOp):
                        # exact by construction: the difference of the deme's own counting wrapper before / after the run
                        if isinstance(incr.op, ast.Sub) and norm(incr.left) == f"{fsn}._problem.n_evaluations":
                            snap = incr.right
                            if isinstance(snap, ast.Name) and len(defs.get(snap.id, [])) == 1 and norm(defs[snap.id][0]) == f"{fsn}._problem.n_evaluations":
                                n_feed += 1
                                continue
                        if any(isinstance(x, ast.Attribute) and x.attr == "nfev" for x in ast.walk(incr)):
                            bad.append((n, f"accumulator increased by `{norm(incr)}`, not by the optimiser's own nfev"))
                        else:
                            unknown.append((n, f"accumulator increased by `{norm(incr)}`"))
                        continue
                    unknown.append((n, f"accumulator changed by `{norm(n)}` (form not understood)"))
        # every evaluation the class makes must be covered by the accumulator: no evaluating call outside the counted optimiser run
        objective_methods = set()
        for f in ctx.prog.functions_in(ci):
            for cs in ctx.res.callsites(f):
                if cs.external and cs.external.startswith("scipy.optimize.") and isinstance(cs.node, ast.Call):
                    from ..core import effective_keywords
                    from .common import objective_function

                    fa = cs.node.args[0] if cs.node.args else effective_keywords(cs.node, local_defs(f)).get("fun")
                    if fa is not None:
                        k, nd, owner, _ = objective_function(ctx, f, fa)
                        if owner is not None:
                            objective_methods.add(owner.qualname)
        for f in ctx.prog.functions_in(ci):
            if f.parent is not None or f.qualname in objective_methods:
                continue
            inside_lambda = {id(x) for lam in body_walk(f.node) if isinstance(lam, ast.Lambda) for x in ast.walk(lam)}
            for cs in ctx.res.callsites(f):
                if cs.kind not in ("call", "ctor") or not isinstance(cs.node, ast.Call):
                    continue
                if cs.external and cs.external.startswith("scipy.optimize."):
                    continue
                if id(cs.node) in inside_lambda:
                    continue  # the objective handed to the optimiser (checked by _objective_forwards_to_wrapper)
                def only_builds_closure(t):
                    """every evaluating call of t sits inside a lambda / nested function that t returns: calling t evaluates nothing"""
                    deferred = {id(x) for d in ast.walk(t.node) if (isinstance(d, ast.Lambda) or (isinstance(d, ast.FunctionDef) and d is not t.node)) for x in ast.walk(d)}
                    evs = [c2 for c2 in ctx.res.callsites(t) if isinstance(c2.node, ast.Call) and (any(ctx.eff.has(t2, "EVAL") for t2 in c2.targets) or (isinstance(c2.node.func, ast.Name) and c2.node.func.id in t.params()))]
                    return bool(deferred) and all(id(c2.node) in deferred for c2 in evs)

                if cs.targets and all(only_builds_closure(t) for t in cs.targets):
                    continue  # builds the objective (a closure); what the closure does is R03.2's question
                if any(ctx.eff.has(t, "EVAL") for t in cs.targets):
                    bad.append((cs.node, f"`{norm(cs.node)[:80]}` in {f.short} evaluates the objective outside the optimiser run whose nfev feeds the accumulator: that call is made but never reported"))
        for n, why in bad:
            obs.append(ctx.ob("R03.3", o, n, status=VIOLATION, detail=f"{ci.name}.n_evaluations: {why}"))
        for n, why in unknown:
            obs.append(ctx.ob("R03.3", o, n, status=INCONCLUSIVE, detail=f"{ci.name}.n_evaluations: {why}"))
        if not bad and not unknown:
            obs.append(ctx.ob("R03.3", o, o.node, status=OK if n_feed else VIOLATION, detail=f"{ci.name}: accumulator fed only by result.nfev of {n_feed} scipy call(s) whose objective forwards to the counting wrapper" if n_feed else f"{ci.name}.n_evaluations accumulator is never fed", construct=f"{ci.name}.count"))
    # tree totals
    t = ctx.prog.own_method("DemeTree", "n_evaluations")
    ok, why = _sum_over_all_demes(ctx, t)
    obs.append(ctx.ob("R03.3", t, t.node, status=OK if ok else INCONCLUSIVE if ok is None else VIOLATION, detail="tree total = sum of deme.n_evaluations over all_demes" if ok else f"DemeTree.n_evaluations {why}", construct="tree-total"))
    # counts are computed live on every read: no accessor on the counting path stores anything (a memoised count goes stale)
    for acc_m in [t, m] + [c.methods["n_evaluations"] for c in ctx.prog.subclasses(base) if "n_evaluations" in c.methods]:
        w = sorted(e for e in ctx.eff.of(acc_m) if e[0] in ("WRITE", "GLOBALWRITE"))
        obs.append(ctx.ob("R03.3", acc_m, acc_m.node, status=VIOLATION if w else OK, detail=f"{acc_m.short} caches state while counting ({w[0][1]}): a memoised evaluation count is not updated when the deme evaluates again, so totals (and eval-limit stop conditions) fall behind the real number of calls" if w else f"{acc_m.short} is computed live (no stores)", witness=ctx.eff.chain(acc_m, w[0]) if w else [], construct=f"{acc_m.short}:live"))
    ad = ctx.prog.own_method("DemeTree", "all_demes")
    from .common import deme_listing

    dl = deme_listing(ctx, "DemeTree", "all_demes")
    if dl["levels"] is None or dl["elt"] == "?" or any(x.startswith("?") for x in dl["filters"]):
        st_ad, why = INCONCLUSIVE, f"cannot tell which demes all_demes enumerates ({dl['why'] or sorted(dl['filters'])})"
    elif dl["levels"] < 0:
        st_ad, why = VIOLATION, f"all_demes leaves out the last {-dl['levels']} level(s)"
    elif dl["filters"]:
        st_ad, why = VIOLATION, f"all_demes filters demes ({', '.join(sorted(dl['filters']))})"
    else:
        st_ad, why = OK, ""
    obs.append(ctx.ob("R03.3", ad, ad.node, status=st_ad, detail="all_demes enumerates every deme of every level" if st_ad == OK else why, construct="all_demes"))
    # per-level sums in summary()
    s = ctx.prog.own_method("DemeTree", "summary")
    found = 0
    # summary() itself and the private helpers of the class it calls with a level's deme list
    helpers = []
    for c in body_walk(s.node):
        if isinstance(c, ast.Call) and isinstance(c.func, ast.Attribute) and isinstance(c.func.value, ast.Name) and c.func.value.id == s.self_name() and c.func.attr.startswith("_") and s.cls is not None:
            h = ctx.prog.lookup_method(s.cls, c.func.attr)
            if h is not None:
                helpers.append((h, c))

    def level_list_in_summary(name: str):
        """is `name` (in summary) bound by `for .. in enumerate(self.levels)` / `for x in self.levels`?  True / False / None"""
        for fl in body_walk(s.node):
            if isinstance(fl, (ast.For, ast.comprehension)) and any(isinstance(x, ast.Name) and x.id == name for x in ast.walk(fl.target)):
                src = fl.iter
                if isinstance(src, ast.Call) and norm(src.func) == "enumerate" and src.args:
                    src = src.args[0]
                if norm(src) in (f"{s.self_name()}.levels", f"{s.self_name()}._levels"):
                    return True
                if norm(src).startswith((f"{s.self_name()}.levels[", f"{s.self_name()}._levels[", f"{s.self_name()}.leaves", f"{s.self_name()}.active")):
                    return False
        # a local list selected out of a level's demes: `[d for d in all_level_demes if <condition>]` counts only some of them
        sdefs = local_defs(s)
        for d_ in sdefs.get(name, []):
            if isinstance(d_, ast.ListComp) and len(d_.generators) == 1 and d_.generators[0].ifs and isinstance(d_.generators[0].iter, ast.Name) and level_list_in_summary(d_.generators[0].iter.id) is True:
                return False
            if isinstance(d_, ast.ListComp) and len(d_.generators) == 1 and not d_.generators[0].ifs and isinstance(d_.generators[0].iter, ast.Name) and norm(d_.elt) == norm(d_.generators[0].target):
                return level_list_in_summary(d_.generators[0].iter.id)
        return None

    for g, callsite in [(s, None)] + helpers:
        for n in body_walk(g.node):
            if isinstance(n, ast.Call) and norm(n.func) == "sum" and n.args and isinstance(n.args[0], (ast.GeneratorExp, ast.ListComp)) and norm(n.args[0].elt).endswith(".n_evaluations"):
                found += 1
                comp = n.args[0]
                ok = len(comp.generators) == 1 and not comp.generators[0].ifs
                it = comp.generators[0].iter
                src_ok = None
                if isinstance(it, ast.Name):
                    nm = it.id
                    if callsite is not None and nm in g.params():
                        idx = g.params().index(nm) - 1
                        a = callsite.args[idx] if 0 <= idx < len(callsite.args) else next((k.value for k in callsite.keywords if k.arg == nm), None)
                        nm = a.id if isinstance(a, ast.Name) else None
                    src_ok = level_list_in_summary(nm) if nm else None
                elif norm(it).startswith((f"{g.self_name()}.levels[", f"{g.self_name()}._levels[")) and isinstance(it, ast.Subscript) and not isinstance(it.slice, ast.Slice):
                    src_ok = True
                if ok and src_ok:
                    st_l = OK
                elif not ok or src_ok is False:
                    st_l = VIOLATION
                else:
                    st_l = INCONCLUSIVE
                obs.append(ctx.ob("R03.3", g, n, status=st_l, detail="level total sums every deme of the level" if st_l == OK else f"per-level evaluation total `{norm(n)}` does not range over all demes of the level" if st_l == VIOLATION else f"cannot tell which demes `{norm(it)}` in the per-level total ranges over"))
    if not found:
        obs.append(ctx.ob("R03.3", s, s.node, status=INCONCLUSIVE, detail="summary() no longer contains a recognisable per-level evaluation sum", construct="level-total"))
    return obs


def _sum_over_all_demes(ctx, t):
    """True / False (positively wrong: filtered or partial source) / None (form not understood)."""
    from ..core import canon

    rets = [n for n in body_walk(t.node) if isinstance(n, ast.Return)]
    if len(rets) != 1:
        return None, "has several returns"
    defs = local_defs(t)
    v = rets[0].value
    hops = 0
    while isinstance(v, ast.Name) and v.id in defs and len(defs[v.id]) == 1 and hops < 4:
        v = defs[v.id][0]
        hops += 1
    if isinstance(v, ast.IfExp):
        # one of the alternatives reads a counter of some other object (a problem shared with the outside, a cached total):
        # that counter also moves when the object is used outside this tree
        for arm in (v.body, v.orelse):
            if isinstance(arm, ast.Attribute) and arm.attr in ("n_evaluations", "_n_evals") and not (isinstance(arm.value, ast.Name) and arm.value.id == t.self_name()):
                return False, f"takes the total from `{norm(arm)}` on some path instead of summing the demes' own counters: whatever else evaluates through that object (another tree, the caller) is counted into this tree's total"
    if not (isinstance(v, ast.Call) and norm(v.func) == "sum" and len(v.args) == 1 and isinstance(v.args[0], (ast.GeneratorExp, ast.ListComp))):
        return None, f"is `{norm(v)[:80]}`, not recognisably a sum over demes"
    comp = v.args[0]
    if not norm(comp.elt).endswith(".n_evaluations"):
        return False, f"sums `{norm(comp.elt)}` instead of the demes' evaluation counts"
    if any(g.ifs for g in comp.generators):
        return False, "filters the demes it sums over (" + ", ".join(norm(c) for g in comp.generators for c in g.ifs) + ")"
    srcs = [canon(g.iter, defs) for g in comp.generators]
    sn = t.self_name()
    if srcs == [f"{sn}.all_demes"]:
        return True, ""
    if len(srcs) == 2 and srcs[0] in (f"{sn}.levels", f"{sn}._levels") and isinstance(comp.generators[0].target, ast.Name) and srcs[1] == comp.generators[0].target.id:
        return True, ""
    if any(x in srcs[0] for x in ("active", "leaves", "root", "[")):
        return False, f"sums over `{', '.join(srcs)}`, not over all demes of all levels"
    return None, f"sums over `{', '.join(srcs)}` (source not understood)"


def _all_demes_unfiltered(ad):
    rets = [n for n in body_walk(ad.node) if isinstance(n, ast.Return)]
    if len(rets) != 1 or not isinstance(rets[0].value, (ast.ListComp, ast.GeneratorExp)):
        return False, "is not a single comprehension"
    comp = rets[0].value
    if any(g.ifs for g in comp.generators):
        return False, "filters demes"
    sn = ad.self_name()
    txt = [norm(g.iter) for g in comp.generators]
    if len(txt) == 2 and txt[0] == f"range({sn}.height)" and txt[1].startswith(f"{sn}.levels["):
        return True, ""
    if len(txt) == 2 and txt[0] in (f"enumerate({sn}.levels)", f"enumerate({sn}._levels)"):
        return True, ""
    return False, f"iterates `{txt}`"


# ---------------------------------------------------------------- R03.4 / R03.5: minimize()
def _truth_of_maxfun_test(test: ast.AST, param: str):
    """+1 if test is true exactly when the budget is present, -1 if when absent, 0 if unrelated."""
    t = norm(test)
    if t == param or t == f"{param} is not None":
        return 1
    if t in (f"not {param}", f"{param} is None"):
        return -1
    return 0


_BRANCH_INFO: dict = {}


def _index_branches(f) -> None:
    """value node of every simple assignment in f -> the (if-test, taken-arm) pairs it sits under"""
    arms = {}

    def walk(stmts, conds):
        for st in stmts:
            if isinstance(st, (ast.Assign, ast.AnnAssign)) and getattr(st, "value", None) is not None:
                arms[id(st.value)] = list(conds)
            if isinstance(st, ast.If):
                walk(st.body, conds + [(st.test, True)])
                walk(st.orelse, conds + [(st.test, False)])
            elif isinstance(st, (ast.For, ast.While, ast.With, ast.Try)):
                for fld in ("body", "orelse", "finalbody"):
                    walk(getattr(st, fld, []) or [], conds)
    walk(f.node.body, [])
    _BRANCH_INFO["fn"] = f
    _BRANCH_INFO["arms"] = arms


def _eval_under(e: ast.AST, defs, param, present: bool, depth=0):
    """Resolve an expression to its definition under the assumption that the budget is present/absent."""
    if depth > 8:
        return e
    if isinstance(e, ast.IfExp):
        pol = _truth_of_maxfun_test(e.test, param)
        if pol:
            taken = e.body if (pol == 1) == present else e.orelse
            return _eval_under(taken, defs, param, present, depth + 1)
        # `<local> is None` / `is not None` where the local's value under the assumption is a constructed object or None
        t = e.test
        if isinstance(t, ast.Compare) and len(t.ops) == 1 and isinstance(t.ops[0], (ast.Is, ast.IsNot)) and isinstance(t.left, ast.Name) and isinstance(t.comparators[0], ast.Constant) and t.comparators[0].value is None:
            v = _eval_under(t.left, defs, param, present, depth + 1)
            isnone = True if (isinstance(v, ast.Constant) and v.value is None) else False if isinstance(v, ast.Call) else None
            if isnone is not None:
                truth = isnone == isinstance(t.ops[0], ast.Is)
                return _eval_under(e.body if truth else e.orelse, defs, param, present, depth + 1)
        return e
    if isinstance(e, ast.Name) and e.id in defs and len(defs[e.id]) == 1 and not isinstance(defs[e.id][0], ast.AugAssign):
        return _eval_under(defs[e.id][0], defs, param, present, depth + 1)
    if isinstance(e, ast.Name) and e.id in defs and len(defs[e.id]) > 1 and _BRANCH_INFO.get("fn") is not None:
        # several definitions in the arms of `if <budget test>:` statements: keep those on arms consistent with the assumption
        live = []
        for d in defs[e.id]:
            conds = _BRANCH_INFO["arms"].get(id(d))
            if conds is None:
                return e
            consistent = True
            for test, in_body in conds:
                pol = _truth_of_maxfun_test(test, param)
                if pol and ((pol == 1) == present) != in_body:
                    consistent = False
            if consistent:
                live.append(d)
        if len(live) == 1:
            return _eval_under(live[0], defs, param, present, depth + 1)
    return e


def _stack_of(ctx, f, e, defs, param, present, depth=0):
    """Wrapper stack (outermost first) denoted by expression e: list of class names ending with 'F'."""
    e = _eval_under(e, defs, param, present)
    if isinstance(e, ast.Call):
        ci = ctx.prog.resolve_class_expr(e.func, f.module)
        if ci is not None:
            if ci.name == "FunctionProblem" or ctx.prog.is_subclass(ci, ctx.prog.cls("FunctionProblem")):
                return ["F"]
            if ctx.prog.is_subclass(ci, ctx.prog.cls("ProblemWrapper")) and e.args:
                inner = _stack_of(ctx, f, e.args[0], defs, param, present, depth + 1)
                if inner is not None:
                    return [ci.name] + inner
    return None


def _always_forwarding(ctx, cls_name):
    sums = evaluate_summaries(ctx, ctx.prog.cls(cls_name))
    return all(s.forwards == 1 for s in sums)


def _test_truth(test, defs, param, present):
    """True / False / None: the outcome of an `if` test under the assumption on the budget parameter"""
    neg = False
    while isinstance(test, ast.UnaryOp) and isinstance(test.op, ast.Not):
        test, neg = test.operand, not neg
    pol = _truth_of_maxfun_test(test, param)
    if pol:
        return ((pol == 1) == present) != neg
    if isinstance(test, ast.Compare) and len(test.ops) == 1 and isinstance(test.ops[0], (ast.Is, ast.IsNot)) and isinstance(test.left, ast.Name) and isinstance(test.comparators[0], ast.Constant) and test.comparators[0].value is None:
        v = _eval_under(test.left, defs, param, present)
        isnone = True if (isinstance(v, ast.Constant) and v.value is None) else False if isinstance(v, ast.Call) else None
        if isnone is not None:
            return (isnone == isinstance(test.ops[0], ast.Is)) != neg
    return None


def _reachable_under(f, node, defs, param, present) -> bool:
    """False when `node` sits in an arm of an `if` (or behind an `if ..: return`) that the assumption rules out"""
    def find(block, guards):
        for i, st in enumerate(block):
            if any(x is node for x in ast.walk(st)):
                if isinstance(st, ast.If) and not any(x is node for x in ast.walk(st.test)):
                    inb = any(x is node for b_ in st.body for x in ast.walk(b_))
                    return find(st.body if inb else st.orelse, guards + [(st.test, inb)])
                for fld in ("body", "orelse", "finalbody"):
                    sub = getattr(st, fld, None)
                    if isinstance(sub, list) and any(x is node for b_ in sub for x in ast.walk(b_)):
                        return find(sub, guards)
                return guards
            if isinstance(st, ast.If) and not st.orelse and st.body and isinstance(st.body[-1], (ast.Return, ast.Raise)):
                guards = guards + [(st.test, False)]
        return guards

    for test, in_body in find(f.node.body, []):
        tv = _test_truth(test, defs, param, present)
        if tv is not None and tv != in_body:
            return False
    return True


def r03_4(ctx: Ctx):
    """R03.4 minimize(): nfev is read from a counter that is exact for `fun` under each assumption on maxfun."""
    f = ctx.prog.func("pyhms.hms", "minimize")
    defs = local_defs(f)
    _index_branches(f)
    param = "maxfun"
    if param not in f.params():
        raise AnalysisError("minimize() has no maxfun parameter")
    # the OptimizeResult(...) call
    res_calls = [c for c in body_walk(f.node) if isinstance(c, ast.Call) and any(k.arg == "nfev" for k in c.keywords)]
    if not res_calls:
        raise AnalysisError("minimize() no longer builds a result with nfev=")
    obs = []
    # problem handed to the levels
    level_problem_exprs = []
    for c in body_walk(f.node):
        if isinstance(c, ast.Call):
            ci = ctx.prog.resolve_class_expr(c.func, f.module)
            if ci is not None and ctx.prog.is_subclass(ci, ctx.prog.cls("BaseLevelConfig")):
                for k in c.keywords:
                    if k.arg == "problem":
                        level_problem_exprs.append((c, k.value))
    for call in res_calls:
        nfev = next(k.value for k in call.keywords if k.arg == "nfev")
        has_iter = "maxiter" in f.params()
        combos = [("maxfun given", True, False), ("maxfun absent (maxiter only)", False, True)] + ([("maxfun and maxiter given", True, True)] if has_iter else [])
        for label, present, iter_present in combos:
            if len(res_calls) > 1 and not _reachable_under(f, call, defs, param, present):
                continue  # this result is built on a branch the assumption rules out
            e = _eval_under(nfev, defs, param, present)
            if has_iter:
                e = _eval_under(e, defs, "maxiter", iter_present)
            verdict, why = _nfev_exact(ctx, f, e, defs, param, present, level_problem_exprs)
            if label == "maxfun and maxiter given" and verdict == OK:
                continue  # the usual case: nothing new to say
            obs.append(ctx.ob("R03.4", f, nfev, status=verdict, detail=f"[{label}] nfev <- `{norm(e)}`: {why}", construct=f"nfev:{'present' if present else 'absent'}{'+iter' if (present and iter_present) else ''}"))
    return obs


def _nfev_exact(ctx, f, e, defs, param, present, level_problem_exprs):
    if not (isinstance(e, ast.Attribute) and e.attr == "n_evaluations"):
        return INCONCLUSIVE, "not a counter read"
    base = e.value
    # the counter's owner chosen by an isinstance test on a problem object: decide the test on the abstract wrapper stack
    hops = 0
    while isinstance(base, ast.IfExp) and hops < 3:
        t = base.test
        neg = False
        while isinstance(t, ast.UnaryOp) and isinstance(t.op, ast.Not):
            t, neg = t.operand, not neg
        if not (isinstance(t, ast.Call) and norm(t.func) == "isinstance" and len(t.args) == 2):
            break
        st0 = _stack_of(ctx, f, t.args[0], defs, param, present)
        clss = [t.args[1]] if not isinstance(t.args[1], ast.Tuple) else list(t.args[1].elts)
        want = [ctx.prog.resolve_class_expr(c_, f.module) for c_ in clss]
        if st0 is None or any(w is None for w in want):
            return INCONCLUSIVE, f"cannot decide `{norm(base.test)}` under this assumption"
        top = ctx.prog.cls("FunctionProblem" if st0[0] == "F" else st0[0])
        truth = any(top is w or ctx.prog.is_subclass(top, w) for w in want) != neg
        base = base.body if truth else base.orelse
        hops += 1
    bt = ctx.res.type_of(base, f)
    is_tree = bt is not None and any(t[0] == "inst" and t[1].endswith(".DemeTree") for t in ([bt] if bt[0] != "union" else bt[1]))
    if is_tree:
        # Σ over demes of Count∘(level problem stack): exact iff nothing below the deme wrapper can refuse
        stacks = []
        for c, pe in level_problem_exprs:
            st = _stack_of(ctx, f, pe, defs, param, present)
            if st is None:
                return INCONCLUSIVE, f"cannot resolve the problem handed to {norm(c.func)}"
            stacks.append(st)
        for st in stacks:
            for w in st[:-1]:
                if not _always_forwarding(ctx, w):
                    return VIOLATION, f"tree total = Σ deme counters over stack EvalCountingProblem∘{'∘'.join(st)}; `{w}` below the deme counter can refuse, so the demes count requests that never reach fun (nfev > real calls once the cutoff is hit)"
        return OK, "tree total over always-forwarding stacks " + str(["∘".join(s) for s in stacks])
    st = _stack_of(ctx, f, base, defs, param, present)
    if st is None:
        return INCONCLUSIVE, "counter owner is not a recognisable wrapper stack over FunctionProblem(fun)"
    if len(st) < 2:
        return VIOLATION, "reads n_evaluations of an object that has no counter under this assumption"
    # the outermost wrapper's counter counts its own forwards; exact iff everything strictly below forwards always
    for w in st[1:-1]:
        if not _always_forwarding(ctx, w):
            return VIOLATION, f"`{w}` below the read counter can refuse evaluations"
    if counter_attr(ctx, ctx.prog.cls(st[0])) is None:
        return VIOLATION, f"{st[0]} has no evaluation counter"
    # every level must evaluate through this same object, otherwise calls bypass the counter
    for c, pe in level_problem_exprs:
        if norm(_eval_under(pe, defs, param, present)) != norm(_eval_under(base, defs, param, present)):
            pst = _stack_of(ctx, f, pe, defs, param, present)
            if pst is None:
                return INCONCLUSIVE, f"cannot tell whether the level built by {norm(c.func)} evaluates through the object whose counter is read (`{norm(pe)[:60]}`)"
            if pst == st:
                return INCONCLUSIVE, f"the level built by {norm(c.func)} evaluates through `{norm(pe)[:60]}`, a stack of the same shape: cannot tell whether it is the same object"
            return VIOLATION, f"level built by {norm(c.func)} evaluates through `{norm(pe)}`, which bypasses the counter read for nfev"
    return OK, f"counter of {st[0]} directly above {'∘'.join(st[1:])}, shared by all levels"


def r03_5(ctx: Ctx):
    """R03.5 budget wiring in minimize(): every level gets the cutoff-wrapped problem and the GSC is built from the same maxfun."""
    f = ctx.prog.func("pyhms.hms", "minimize")
    defs = local_defs(f)
    _index_branches(f)
    obs = []
    n = 0
    for c in body_walk(f.node):
        if not isinstance(c, ast.Call):
            continue
        ci = ctx.prog.resolve_class_expr(c.func, f.module)
        if ci is not None and ctx.prog.is_subclass(ci, ctx.prog.cls("BaseLevelConfig")):
            n += 1
            pe = next((k.value for k in c.keywords if k.arg == "problem"), None)
            if pe is None:
                obs.append(ctx.ob("R03.5", f, c, status=INCONCLUSIVE, detail="level config without problem= keyword"))
                continue
            st = _stack_of(ctx, f, pe, defs, "maxfun", True)
            ok = st is not None and "EvalCutoffProblem" in st
            if ok:
                # cutoff value is maxfun
                e = _eval_under(pe, defs, "maxfun", True)
                cut = next((k.value for k in e.keywords if k.arg == "eval_cutoff"), e.args[1] if len(e.args) > 1 else None)
                ok = cut is not None and norm(cut) == "maxfun"
            obs.append(ctx.ob("R03.5", f, c, status=OK if ok else INCONCLUSIVE if st is None else VIOLATION, detail=f"{ci.name} evaluates through the cutoff wrapper with cutoff maxfun" if ok else f"{ci.name} is given `{norm(pe)}`, which is not the maxfun cutoff wrapper: the budget can be exceeded"))
    if n < 2:
        raise AnalysisError("minimize() builds fewer than 2 level configs")
    gsc_defs = defs.get("gsc", [])
    ok = False
    for g in gsc_defs:
        e = _eval_under(g, defs, "maxfun", True)
        if isinstance(e, ast.Call) and norm(e.func) == "SingularProblemEvalLimitReached" and e.args and norm(e.args[0]) == "maxfun":
            ok = True
    obs.append(ctx.ob("R03.5", f, f.node, status=OK if ok else VIOLATION, detail="GSC = SingularProblemEvalLimitReached(maxfun) when maxfun is given" if ok else "the global stop condition is not built from maxfun", construct="gsc-from-maxfun"))
    return obs


def _weighted_limit_status(w, tp, wdefs, rets):
    """FitnessEvalLimitReached.__call__ returns (sum over every deme of weight[level] * deme.n_evaluations) >= limit."""
    from ..core import canon

    sn = w.self_name()
    v = None
    if len(rets) == 2:
        # running total with an early exit (the summands are non-negative, so the running total is monotone):
        #   acc = 0; for .. in ..: acc += E; if acc OP limit: return True;   return False | return acc OP limit
        loops = [n for n in w.node.body if isinstance(n, ast.For) and not n.orelse]
        if len(loops) == 1 and len(loops[0].body) == 2 and isinstance(loops[0].body[0], ast.AugAssign) and isinstance(loops[0].body[0].op, ast.Add) and isinstance(loops[0].body[0].target, ast.Name) and isinstance(loops[0].body[1], ast.If) and not loops[0].body[1].orelse:
            acc = loops[0].body[0].target.id
            iff = loops[0].body[1]
            tail = w.node.body[-1]
            inner_ret = iff.body[0] if len(iff.body) == 1 and isinstance(iff.body[0], ast.Return) else None
            init = wdefs.get(acc, [])
            init_ok = any(isinstance(d_, ast.Constant) and d_.value in (0, 0.0) for d_ in init)
            if inner_ret is not None and isinstance(inner_ret.value, ast.Constant) and inner_ret.value.value is True and isinstance(iff.test, ast.Compare) and isinstance(tail, ast.Return) and init_ok and acc in {x.id for x in ast.walk(iff.test) if isinstance(x, ast.Name)}:
                tail_ok = (isinstance(tail.value, ast.Constant) and tail.value.value is False) or norm(tail.value) == norm(iff.test)
                if tail_ok:
                    import copy as _copy

                    class _R(ast.NodeTransformer):
                        def visit_Name(self, node):
                            if node.id == acc:
                                return ast.Call(func=ast.Name(id="sum", ctx=ast.Load()), args=[ast.GeneratorExp(elt=_copy.deepcopy(loops[0].body[0].value), generators=[ast.comprehension(target=_copy.deepcopy(loops[0].target), iter=_copy.deepcopy(loops[0].iter), ifs=[], is_async=0)])], keywords=[])
                            return node
                    v = ast.fix_missing_locations(_R().visit(_copy.deepcopy(iff.test)))
    if v is None:
        if len(rets) != 1 or rets[0].value is None:
            return INCONCLUSIVE, f"{len(rets)} return statements"
        v = rets[0].value
    hops = 0
    while isinstance(v, ast.Name) and v.id in wdefs and len(wdefs[v.id]) == 1 and hops < 4:
        v = wdefs[v.id][0]
        hops += 1
    neg = False
    while isinstance(v, ast.UnaryOp) and isinstance(v.op, ast.Not):
        v, neg = v.operand, not neg
    if not (isinstance(v, ast.Compare) and len(v.ops) == 1):
        return INCONCLUSIVE, f"returns `{norm(v)[:90]}`, not a comparison with the limit"
    l, r, op = v.left, v.comparators[0], type(v.ops[0])
    if canon(l, wdefs) == f"{sn}.limit":
        l, r = r, l
        op = {ast.Lt: ast.Gt, ast.Gt: ast.Lt, ast.LtE: ast.GtE, ast.GtE: ast.LtE}.get(op, op)
    if neg:
        op = {ast.Lt: ast.GtE, ast.GtE: ast.Lt, ast.Gt: ast.LtE, ast.LtE: ast.Gt}.get(op, op)
    if canon(r, wdefs) != f"{sn}.limit":
        return (VIOLATION if isinstance(r, ast.Constant) else INCONCLUSIVE), f"the weighted count is compared with `{norm(r)[:40]}`, not with the limit"
    total = l
    hops = 0
    while isinstance(total, ast.Name) and total.id in wdefs and len(wdefs[total.id]) == 1 and hops < 4:
        total = wdefs[total.id][0]
        hops += 1
    comp = None
    if isinstance(total, ast.Call) and norm(total.func) == "sum" and len(total.args) == 1:
        comp = total.args[0]
    elif isinstance(total, ast.Call) and norm(total.func) in ("reduce", "functools.reduce") and len(total.args) in (2, 3) and norm(total.args[0]) in ("operator.add", "add") and (len(total.args) == 2 or (isinstance(total.args[2], ast.Constant) and total.args[2].value in (0, 0.0))):
        comp = total.args[1]
    hops = 0
    while isinstance(comp, ast.Name) and comp.id in wdefs and len(wdefs[comp.id]) == 1 and hops < 4:
        comp = wdefs[comp.id][0]
        hops += 1
    if not isinstance(comp, (ast.GeneratorExp, ast.ListComp)):
        opaque_call = any(isinstance(x, ast.Call) and norm(x.func) not in ("len", "sum", "max", "min", "int", "float") for x in ast.walk(total))
        if not any(isinstance(x, ast.Attribute) and x.attr == "n_evaluations" for x in ast.walk(total)) and not isinstance(total, ast.Name) and not opaque_call:
            return VIOLATION, f"the quantity compared with the limit, `{norm(total)[:70]}`, is not built from the demes' evaluation counts"
        return INCONCLUSIVE, f"cannot read `{norm(total)[:70]}` as a sum over demes"
    gens = comp.generators
    deme_v = level_txts = None
    if len(gens) == 1 and canon(gens[0].iter, wdefs) == f"{tp}.all_demes" and isinstance(gens[0].target, ast.Tuple) and len(gens[0].target.elts) == 2 and all(isinstance(x, ast.Name) for x in gens[0].target.elts):
        deme_v = gens[0].target.elts[1].id
        level_txts = {gens[0].target.elts[0].id, f"{deme_v}._level", f"{deme_v}.level"}
    elif len(gens) == 2 and canon(gens[0].iter, wdefs) in (f"{tp}.levels", f"{tp}._levels") and isinstance(gens[0].target, ast.Name) and isinstance(gens[1].iter, ast.Name) and gens[1].iter.id == gens[0].target.id and isinstance(gens[1].target, ast.Name):
        deme_v = gens[1].target.id
        level_txts = {f"{deme_v}._level", f"{deme_v}.level"}
    elif len(gens) == 2 and isinstance(gens[0].iter, ast.Call) and norm(gens[0].iter.func) == "enumerate" and len(gens[0].iter.args) == 1 and canon(gens[0].iter.args[0], wdefs) in (f"{tp}.levels", f"{tp}._levels") and isinstance(gens[0].target, ast.Tuple) and len(gens[0].target.elts) == 2 and isinstance(gens[1].iter, ast.Name) and gens[1].iter.id == norm(gens[0].target.elts[1]) and isinstance(gens[1].target, ast.Name):
        deme_v = gens[1].target.id
        level_txts = {norm(gens[0].target.elts[0]), f"{deme_v}._level", f"{deme_v}.level"}
    else:
        srcs = ", ".join(canon(g.iter, wdefs) for g in gens)
        if any(k in srcs for k in (".leaves", ".active_demes", ".active_non_leaves", "levels[", ".root")):
            return VIOLATION, f"sums over `{srcs[:80]}`, not over every deme of every level"
        return INCONCLUSIVE, f"cannot tell which demes `{srcs[:80]}` ranges over"
    if any(g.ifs for g in gens):
        return VIOLATION, "filters the demes whose evaluations are counted (" + ", ".join(norm(c) for g in gens for c in g.ifs)[:80] + ")"
    elt = comp.elt
    factors = []
    # a summand truncated / rounded per deme (`int(w * n)`): with fractional weights every deme loses up to one evaluation, so
    # the weighted total stays below the limit after the exact total has reached it
    if isinstance(elt, ast.Call) and norm(elt.func).split(".")[-1] in ("int", "floor", "round", "trunc", "ceil") and elt.args and any(isinstance(x, ast.Attribute) and x.attr == "n_evaluations" for x in ast.walk(elt.args[0])) and any(isinstance(x, ast.Attribute) and x.attr == "weights" for x in ast.walk(elt.args[0])):
        return VIOLATION, f"every deme's weighted count is passed through `{norm(elt.func)}` (`{norm(elt)[:60]}`): with fractional level weights the total differs from the exact weighted sum by up to one evaluation per deme, so the limit is reported (and run() returns) at another boundary than the one where it is reached"

    def flat(e):
        if isinstance(e, ast.BinOp) and isinstance(e.op, ast.Mult):
            flat(e.left)
            flat(e.right)
        else:
            factors.append(e)
    flat(elt)
    cnt = [x for x in factors if canon(x, wdefs) == f"{deme_v}.n_evaluations"]
    wts = [x for x in factors if isinstance(x, ast.Subscript) and canon(x.value, wdefs) == f"{sn}.weights"]
    if len(cnt) != 1:
        return (VIOLATION if not any(isinstance(x, ast.Attribute) and x.attr == "n_evaluations" for x in ast.walk(elt)) else INCONCLUSIVE), f"the summand `{norm(elt)[:70]}` is not weight * deme.n_evaluations"
    if len(factors) == 1:
        return VIOLATION, "the evaluation counts are summed without their level weights"
    if len(wts) != 1 or len(factors) != 2:
        return INCONCLUSIVE, f"cannot read the summand `{norm(elt)[:70]}` as weight[level] * deme.n_evaluations"
    if canon(wts[0].slice, wdefs) not in level_txts:
        return INCONCLUSIVE, f"the weight is indexed by `{norm(wts[0].slice)}`: cannot tell whether that is the deme's level"
    if op is not ast.GtE:
        return VIOLATION, f"the limit counts as reached only when the weighted count is `{ {ast.Gt: '>', ast.Lt: '<', ast.LtE: '<=', ast.Eq: '=='}.get(op, '?')}` the limit, not `>=`"
    return OK, ""


def r03_6(ctx: Ctx):
    """R03.6 eval-limit stop conditions read the live counters over all demes."""
    from ..core import canon

    obs = []
    m = ctx.prog.own_method("SingularProblemEvalLimitReached", "__call__")
    defs = local_defs(m)
    rets = [n for n in body_walk(m.node) if isinstance(n, ast.Return)]
    tp = m.params()[1]
    t = canon(rets[0].value, defs) if len(rets) == 1 else ""
    ok = t in (f"{tp}.n_evaluations>={m.self_name()}.limit", f"{m.self_name()}.limit<={tp}.n_evaluations", f"not{tp}.n_evaluations<{m.self_name()}.limit")
    from ..core import cond_is

    if not ok and len(rets) == 1 and cond_is(rets[0].value, f"{tp}.n_evaluations >= {m.self_name()}.limit", defs):
        ok = True
    definite = (not ok) and (re.fullmatch(re.escape(tp) + r"\.n_evaluations(>|==|<|<=)" + re.escape(m.self_name()) + r"\.limit", t) is not None or "n_evaluations" not in t
                             or re.fullmatch(re.escape(tp) + r"\.(root|leaves|levels|_levels|active_demes|active_non_leaves)\b.*\.n_evaluations(>=|>|==)" + re.escape(m.self_name()) + r"\.limit", t) is not None)
    obs.append(ctx.ob("R03.6", m, m.node, status=OK if ok else VIOLATION if definite else INCONCLUSIVE, detail="tree.n_evaluations >= limit" if ok else f"SingularProblemEvalLimitReached returns `{t}` instead of tree.n_evaluations >= limit", construct="singular"))
    w = ctx.prog.own_method("FitnessEvalLimitReached", "__call__")
    tp = w.params()[1]
    wdefs = local_defs(w)
    rets = [n for n in body_walk(w.node) if isinstance(n, ast.Return)]
    t = canon(rets[0].value, wdefs) if len(rets) == 1 else ""

    st_w, why_w = _weighted_limit_status(w, tp, wdefs, rets)
    obs.append(ctx.ob("R03.6", w, rets[0] if rets else w.node, status=st_w, detail="weighted sum of deme.n_evaluations over tree.all_demes >= limit" if st_w == OK else f"FitnessEvalLimitReached: {why_w}", construct="weighted"))
    obs.append(ctx.ob("R03.6", w, w.node, detail="comparator checked together with the sum", construct="weighted-cmp", trivial=True))
    return obs


def r03_7(ctx: Ctx):
    """R03.7 the objective slot is invoked only by FunctionProblem.evaluate."""
    obs = []
    fp = ctx.prog.own_method("FunctionProblem", "evaluate")
    n = 0
    for f in ctx.prog.all_functions():
        for c in body_walk(f.node):
            if isinstance(c, ast.Call) and isinstance(c.func, ast.Attribute) and c.func.attr == "fitness_function":
                n += 1
                ok = f is fp
                if not ok and f.cls is fp.cls and f.name.startswith("_") and not f.name.startswith("__"):
                    # a private helper of FunctionProblem that only evaluate() (or other such helpers) calls: still behind evaluate
                    allowed, grew = {fp.qualname}, True
                    while grew:
                        grew = False
                        for g in ctx.prog.functions_in(fp.cls):
                            if g.qualname in allowed or not (g.name.startswith("_") and not g.name.startswith("__")):
                                continue
                            callers = ctx.res.callers_of(g)
                            if callers and all(cs.caller.qualname in allowed for cs in callers):
                                allowed.add(g.qualname)
                                grew = True
                    ok = f.qualname in allowed
                obs.append(ctx.ob("R03.7", f, c, status=OK if ok else VIOLATION, detail="objective invoked by FunctionProblem.evaluate" if ok else f"the objective is invoked directly by {f.short}, bypassing every counter"))
            if isinstance(c, ast.Attribute) and c.attr == "fitness_function" and isinstance(c.ctx, ast.Load) and f is not fp and not (isinstance(c.ctx, ast.Load) and f.name in ("__init__",)):
                # reading the slot elsewhere (to call it later) is suspicious
                par_call = any(isinstance(p, ast.Call) and p.func is c for p in body_walk(f.node))
                if not par_call:
                    # what happens to the function object: called / handed on (an uncounted invocation is possible), or only
                    # inspected (`__name__`, `__module__`, a getattr of those)?
                    from ..core import parents_map as _pm

                    par_ = _pm(f.node)
                    holder = par_.get(id(c))
                    names = [t.id for t in holder.targets if isinstance(t, ast.Name)] if isinstance(holder, ast.Assign) and holder.value is c else []
                    reads = [x for x in body_walk(f.node) if isinstance(x, ast.Name) and x.id in names and isinstance(x.ctx, ast.Load)] if names else [c]
                    def inspected(x):
                        q = par_.get(id(x))
                        if isinstance(q, ast.Attribute) and q.attr.startswith("__"):
                            return True
                        return isinstance(q, ast.Call) and norm(q.func) in ("getattr", "hasattr", "callable", "repr", "str", "id", "type") and q.args and q.args[0] is x
                    def used(x):
                        q = par_.get(id(x))
                        return (isinstance(q, ast.Call) and (q.func is x or x in q.args or any(k.value is x for k in q.keywords))) and not inspected(x)
                    st_ = OK if reads and all(inspected(x) for x in reads) else VIOLATION if any(used(x) for x in reads) or not names and not inspected(c) else INCONCLUSIVE
                    obs.append(ctx.ob("R03.7", f, c, status=st_, detail=f"{f.short} only inspects the objective's attributes" if st_ == OK else f"{f.short} takes the raw objective out of its FunctionProblem (`{norm(c)}`)" + (" and calls it / hands it on: an invocation no counter sees" if st_ == VIOLATION else ": cannot tell whether it is invoked")))
    if n == 0:
        raise AnalysisError("no invocation of fitness_function found")
    return obs


def r03_8(ctx: Ctx):
    """R03.8 sprouting, stop-condition and reporting code never invokes the objective: every evaluation of a run is made by a deme through its counting wrapper."""
    from .common import who_may_evaluate

    return who_may_evaluate(ctx, "R03.8")


def r03_9(ctx: Ctx):
    """R03.9 a level configuration is read-only after construction: nothing stores into a config object or into an un-copied view of its attribute dictionary (`vars(cfg)` / `cfg.__dict__`) — otherwise the next deme built from the same config wraps the previous deme's counting wrapper and evaluations are counted twice."""
    obs = []
    n = 0
    cfg_cls = ctx.prog.cls("BaseLevelConfig")
    cfg_names = {cfg_cls.name} | {c.name for c in ctx.prog.subclasses(cfg_cls)}
    for f in ctx.prog.all_functions():
        if f.name == "<module>" or (f.cls is not None and f.cls.name in cfg_names) or f.module.name.startswith("pyhms.config"):
            continue
        defs = local_defs(f)
        # names that alias a config's live attribute dictionary
        views = {}
        for nm, ds in defs.items():
            for d in ds:
                if isinstance(d, ast.Call) and norm(d.func) == "vars" and len(d.args) == 1 and _is_config_expr(ctx, f, d.args[0], defs):
                    views[nm] = d
                if isinstance(d, ast.Attribute) and d.attr == "__dict__" and _is_config_expr(ctx, f, d.value, defs):
                    views[nm] = d
        for st in body_walk(f.node):
            if not isinstance(st, (ast.Assign, ast.AugAssign)):
                continue
            for t in (st.targets if isinstance(st, ast.Assign) else [st.target]):
                n += 1
                if isinstance(t, ast.Subscript) and isinstance(t.value, ast.Name) and t.value.id in views:
                    obs.append(ctx.ob("R03.9", f, st, status=VIOLATION, detail=f"{f.short}: `{norm(st)[:70]}` writes through `{t.value.id}`, which is the live attribute dictionary of the level configuration (`{norm(views[t.value.id])}`, not a copy): the shared config is modified, and a deme built from it later wraps this deme's counting wrapper", construct=f"{f.short}:{t.value.id}"))
                elif isinstance(t, ast.Subscript) and isinstance(t.value, (ast.Attribute, ast.Call)) and ((isinstance(t.value, ast.Attribute) and t.value.attr == "__dict__" and _is_config_expr(ctx, f, t.value.value, defs)) or (isinstance(t.value, ast.Call) and norm(t.value.func) == "vars" and t.value.args and _is_config_expr(ctx, f, t.value.args[0], defs))):
                    obs.append(ctx.ob("R03.9", f, st, status=VIOLATION, detail=f"{f.short}: `{norm(st)[:70]}` stores into the level configuration's attribute dictionary", construct=f"{f.short}:config-dict"))
                elif isinstance(t, ast.Attribute) and t.attr in ("problem", "bounds", "lsc") and _is_config_expr(ctx, f, t.value, defs):
                    obs.append(ctx.ob("R03.9", f, st, status=VIOLATION, detail=f"{f.short}: `{norm(st)[:70]}` overwrites a field of the shared level configuration", construct=f"{f.short}:config-field"))
    if n < 200:
        raise AnalysisError(f"only {n} assignment targets scanned")
    if not obs:
        obs.append(ctx.ob("R03.9", None, None, subject="pyhms", loc="-", detail=f"{n} assignment targets outside the config classes: none writes into a level configuration", construct="config-read-only"))
    return obs


def _is_config_expr(ctx, f, e, defs) -> bool:
    t = canon(e, defs)
    if t.endswith(".config") or t in ("config", "level_config") or t.endswith("._config") or t.endswith(".config.levels[target_level]"):
        return True
    ty = ctx.res.type_of(e, f)
    for x in ([] if ty is None else ([ty] if ty[0] != "union" else list(ty[1]))):
        if x[0] == "inst" and x[1].split(".")[-1].endswith("LevelConfig"):
            return True
    return False


def r03_10(ctx: Ctx):
    """R03.10 a deme whose evaluation count is filled in only after its external optimiser has returned (the tabled scipy nfev accumulator) never lets a stop condition be consulted from inside that run: at such a consultation the evaluations made so far are not in any counter yet."""
    from .common import objective_function, stop_call_kind

    obs = []
    n = 0
    base = ctx.prog.cls("AbstractDeme")
    for ci in ctx.prog.subclasses(base):
        if "n_evaluations" not in ci.methods:
            continue
        for f in ctx.prog.functions_in(ci):
            if f.parent is not None:
                continue
            for cs in ctx.res.callsites(f):
                if not (cs.external and cs.external.startswith("scipy.optimize.") and isinstance(cs.node, ast.Call)):
                    continue
                n += 1
                from ..core import effective_keywords

                handed = list(cs.node.args[:1]) + [v for k, v in effective_keywords(cs.node, local_defs(f)).items() if k in ("fun", "callback", "jac", "hess")]
                bad = None
                for a in handed:
                    kind, node, owner, rets = objective_function(ctx, f, a)
                    if kind in ("def", "lambda"):
                        g = owner if owner is not None else f
                        for c in ast.walk(node):
                            if isinstance(c, ast.Call) and (stop_call_kind(ctx, g, c) in ("gsc", "lsc") or norm(c.func).endswith(("._gsc", "._lsc"))):
                                bad = (a, c)
                if bad:
                    obs.append(ctx.ob("R03.10", f, bad[1], status=VIOLATION, detail=f"{ci.name}: `{norm(bad[1])}` consults a stop condition from inside the optimiser run (`{norm(bad[0])}` is handed to {cs.external}), but {ci.name}.n_evaluations only receives the run's evaluations after the optimiser has returned: the totals seen by the stop condition are lower than the number of objective calls made", construct=f"{ci.name}:consult-in-run"))
                else:
                    obs.append(ctx.ob("R03.10", f, cs.node, detail=f"{ci.name}: no stop condition is consulted from the functions handed to {cs.external}", construct=f"{ci.name}:consult-in-run"))
    if n == 0:
        obs.append(ctx.ob("R03.10", None, None, subject="pyhms.demes", loc="-", status=INCONCLUSIVE, detail="no deme with its own evaluation accumulator runs an external optimiser any more", construct="none"))
    return obs


def r03_11(ctx: Ctx):
    """R03.11 the individuals a population deme evaluates and breeds from are its own: a population handed to evaluate_population / the engine never contains another deme's Individual object (the sprout seed itself), whose `problem` is the parent's counting wrapper — Population.from_individuals takes the problem of the first individual, so the child's evaluations would be counted by the parent."""
    obs = []
    n = 0
    for ci in ctx.concrete_demes():
        init = ci.methods.get("__init__")
        if init is None:
            continue
        defs = local_defs(init)
        evald = [c.args[0].id for c in body_walk(init.node) if isinstance(c, ast.Call) and norm(c.func).endswith("evaluate_population") and c.args and isinstance(c.args[0], ast.Name)]
        if not evald:
            continue
        n += 1
        bad = None

        def is_seed_obj(e):
            t = canon(e, defs)
            return t.endswith(("sprout_seed", "_sprout_seed")) and not t.endswith(".genome")

        for st in body_walk(init.node):
            # list literals / concatenations assigned to an evaluated population
            if isinstance(st, ast.Assign) and len(st.targets) == 1 and isinstance(st.targets[0], ast.Name) and st.targets[0].id in evald:
                for x in ast.walk(st.value):
                    if isinstance(x, ast.List) and any(is_seed_obj(el) for el in x.elts):
                        bad = st
            if isinstance(st, ast.Call) and isinstance(st.func, ast.Attribute) and st.func.attr in ("append", "insert", "extend") and isinstance(st.func.value, ast.Name) and st.func.value.id in evald:
                if any(is_seed_obj(a) or (isinstance(a, ast.List) and any(is_seed_obj(el) for el in a.elts)) for a in st.args):
                    bad = st
        if bad is not None:
            obs.append(ctx.ob("R03.11", init, bad, status=VIOLATION, detail=f"{ci.name}: `{norm(bad)[:80]}` puts the parent's sprout-seed Individual itself into the population this deme evaluates and breeds from: it carries the parent's counting wrapper, so evaluations of this deme are added to the parent's counter (and a hibernating parent appears to evaluate)", construct=f"{ci.name}:foreign-individual"))
        else:
            obs.append(ctx.ob("R03.11", init, init.node, detail=f"{ci.name}: the starting population consists of individuals created on the deme's own problem", construct=f"{ci.name}:foreign-individual"))
    if n < 3:
        raise AnalysisError(f"only {n} deme constructors evaluating a starting population found")
    return obs


def r03_12(ctx: Ctx):
    """R03.12 every deme that was constructed (its first population is evaluated by the constructor) is registered in the tree's levels on every path: a deme built and then dropped has made evaluations that no total counts."""
    from . import c07

    obs = []
    for o in c07.r07_1(ctx):
        if (o.construct or "").startswith(("register-level", "register-all-paths")):
            o.rule = "R03.12"
            obs.append(o)
    if not obs:
        obs.append(ctx.ob("R03.12", None, None, subject="DemeTree._do_sprout", loc="-", status=INCONCLUSIVE, detail="the registration of sprouted demes was not analysed (R07.1 found no registration site)", construct="register"))
    return obs


RULES = [
    ("R03.1", r03_1, 8),
    ("R03.2", r03_2, 16),
    ("R03.3", r03_3, 5),
    ("R03.4", r03_4, 2),
    ("R03.5", r03_5, 3),
    # R03.6 (what the evaluation-limit stop conditions compute) is C05's obligation (R05.9): a limit condition that answers
    # early or late changes when run() returns, not the exactness of the counts nor the hardness of the cutoff budget
    ("R03.7", r03_7, 1),
    ("R03.8", r03_8, 1),
    ("R03.9", r03_9, 1),
    ("R03.10", r03_10, 1),
    ("R03.11", r03_11, 3),
    ("R03.12", r03_12, 1),
]
