"""Helpers shared by several rule modules: stop-condition consults, history appends,
activity stores, evaluation sites."""
from __future__ import annotations

import ast

from ..cfg import CFG, Node
from ..core import Ctx, is_self_attr, local_defs
from ..model import AnalysisError, FuncInfo, body_walk, norm


def _sc_targets(ctx: Ctx, base_name: str) -> set[str]:
    ci = ctx.prog.cls(base_name)
    return {m.qualname for m in ctx.res.dispatch(ci, "__call__")}


def stop_call_kind(ctx: Ctx, f: FuncInfo, call: ast.Call) -> str | None:
    """'gsc' / 'lsc' when the call invokes a global / local stop condition object."""
    for cs in ctx.res.callsites(f):
        if cs.node is call:
            tq = {t.qualname for t in cs.targets}
            g = ctx.prog.cls("GlobalStopCondition").methods.get("__call__")
            l = ctx.prog.cls("LocalStopCondition").methods.get("__call__")
            if g is not None and g.qualname in tq:
                return "gsc"
            if l is not None and l.qualname in tq:
                return "lsc"
            if cs.unresolved or cs.cha or not cs.targets:
                # unresolved receiver: fall back on the attribute name the repo uses
                txt = norm(call.func)
                if txt.endswith("._gsc") or txt.endswith(".gsc"):
                    return "gsc"
                if txt.endswith("._lsc") or txt.endswith(".lsc"):
                    return "lsc"
            return None
    return None


def stop_calls_in(ctx: Ctx, f: FuncInfo, expr: ast.AST, kind: str) -> list[ast.Call]:
    return [c for c in ast.walk(expr) if isinstance(c, ast.Call) and stop_call_kind(ctx, f, c) == kind]


def sc_valued_names(ctx: Ctx, f: FuncInfo, kind: str) -> set[str]:
    """Local names all of whose definitions are results of a stop-condition call of that kind
    (possibly negated: tracked separately by cond_polarity)."""
    out = set()
    for name, defs in local_defs(f).items():
        ok = bool(defs)
        for d in defs:
            core = d
            if isinstance(core, ast.UnaryOp) and isinstance(core.op, ast.Not):
                core = core.operand
            if not (isinstance(core, ast.Call) and stop_call_kind(ctx, f, core) == kind):
                ok = False
        if ok:
            out.add(name)
    return out


def sc_flag_names(ctx: Ctx, f: FuncInfo, kind: str) -> set[str]:
    """Local flags: every definition is a stop-condition call of that kind, `flag or <call>`, or a constant False / None
    initialiser (at least one of each).  A true flag implies that some consult returned true; a false flag implies nothing."""
    out = set()
    for name, defs in local_defs(f).items():
        calls = consts = 0
        ok = True
        for d in defs:
            core = d
            if isinstance(core, ast.BoolOp) and isinstance(core.op, ast.Or) and len(core.values) == 2 and isinstance(core.values[0], ast.Name) and core.values[0].id == name:
                core = core.values[1]
            if isinstance(core, ast.Call) and stop_call_kind(ctx, f, core) == kind:
                calls += 1
            elif isinstance(core, ast.Constant) and core.value in (False, None):
                consts += 1
            else:
                ok = False
        if ok and calls and consts:
            out.add(name)
    return out


def consult_verdict(ctx: Ctx, f: FuncInfo, node: Node, kind: str, lab):
    """The stop condition's verdict established by leaving cond node `node` through edge `lab`:
    True / False, None (no information), or "?" (consulted in a form the analyser cannot attribute)."""
    pol = cond_consult(ctx, f, node, kind)
    if pol == 2:
        return "?"
    if pol == 0 or lab not in (True, False):
        return None
    if pol == 3:
        return True if lab else None
    return lab if pol == 1 else (not lab)


def cond_consult(ctx: Ctx, f: FuncInfo, node: Node, kind: str) -> int:
    """For a cond node: +1 if its truth equals the stop condition's verdict, -1 if it is the
    negation, 0 if the node does not consult a stop condition of that kind.
    (CFG construction already strips `not` and splits and/or, so the node's expression is atomic.)"""
    if node.kind != "cond" or node.ast is None:
        return 0
    e = node.ast
    if isinstance(e, ast.NamedExpr):
        e = e.value
    if isinstance(e, ast.Call) and stop_call_kind(ctx, f, e) == kind:
        return 1
    if isinstance(e, ast.Name) and e.id in sc_valued_names(ctx, f, kind):
        defs = local_defs(f)[e.id]
        neg = [isinstance(d, ast.UnaryOp) and isinstance(d.op, ast.Not) for d in defs]
        if all(neg):
            return -1
        if not any(neg):
            return 1
        return 0
    if isinstance(e, ast.Name) and e.id in sc_flag_names(ctx, f, kind):
        return 3
    if isinstance(e, ast.Compare) and len(e.ops) == 1 and isinstance(e.ops[0], (ast.Is, ast.Eq, ast.IsNot, ast.NotEq)):
        # `gsc(tree) is True` / `== False`
        l, r = e.left, e.comparators[0]
        for a, b in ((l, r), (r, l)):
            if isinstance(b, ast.Constant) and isinstance(b.value, bool):
                inner = a.value if isinstance(a, ast.NamedExpr) else a
                if isinstance(inner, ast.Call) and stop_call_kind(ctx, f, inner) == kind:
                    pol = 1 if b.value else -1
                    if isinstance(e.ops[0], (ast.IsNot, ast.NotEq)):
                        pol = -pol
                    return pol
    # a stop-condition call buried in a larger expression: the analyser cannot attribute the outcome
    if stop_calls_in(ctx, f, node.ast, kind):
        return 2  # "consulted, polarity unknown"
    return 0


def node_has_effect(ctx: Ctx, f: FuncInfo, node: Node, kind: str) -> bool:
    if node.ast is None or node.kind in ("entry", "exit", "def"):
        return False
    a = node.ast
    if node.kind == "except":
        return False
    return any(e[0] == kind for e in ctx.eff.stmt_effects(f, a))


def is_history_append(stmt: ast.AST, selfn: str = "self") -> bool:
    """`self._history.append(...)` as an expression statement."""
    if isinstance(stmt, ast.Expr) and isinstance(stmt.value, ast.Call):
        fn = stmt.value.func
        return isinstance(fn, ast.Attribute) and fn.attr in ("append",) and is_self_attr(fn.value, "_history", selfn)
    return False


def history_mutations(stmt: ast.AST, selfn: str = "self") -> list[str]:
    """Any other way a statement can change self._history (extend/insert/+=/item store/rebinding)."""
    out = []
    for n in ast.walk(stmt):
        if isinstance(n, ast.Call) and isinstance(n.func, ast.Attribute) and is_self_attr(n.func.value, "_history", selfn):
            if n.func.attr not in ("append",) and n.func.attr in ("extend", "insert", "pop", "remove", "clear", "sort", "reverse", "__setitem__", "__delitem__"):
                out.append(norm(n))
    tg = []
    if isinstance(stmt, ast.Assign):
        tg = stmt.targets
    elif isinstance(stmt, (ast.AugAssign, ast.AnnAssign)):
        tg = [stmt.target]
    elif isinstance(stmt, ast.Delete):
        tg = stmt.targets
    for t in tg:
        base = t
        while isinstance(base, ast.Subscript):
            base = base.value
        if is_self_attr(base, "_history", selfn):
            out.append(norm(stmt))
    return out


def active_store(stmt: ast.AST, selfn: str = "self"):
    """Returns the assigned value expression if stmt stores to <selfn>._active, else None."""
    if isinstance(stmt, ast.Assign):
        for t in stmt.targets:
            if is_self_attr(t, "_active", selfn):
                return stmt.value
    if isinstance(stmt, ast.AnnAssign) and is_self_attr(stmt.target, "_active", selfn) and stmt.value is not None:
        return stmt.value
    if isinstance(stmt, ast.AugAssign) and is_self_attr(stmt.target, "_active", selfn):
        return stmt
    return None


def calls_method(stmt: ast.AST, ctx: Ctx, f: FuncInfo, target: FuncInfo) -> bool:
    inside = {id(x) for x in ast.walk(stmt)}
    for cs in ctx.res.callsites(f):
        if id(cs.node) in inside and target in cs.targets:
            return True
    return False


def callers_outside(ctx: Ctx, target: FuncInfo, allowed: set[str]) -> list:
    """Call sites of target whose caller qualname is not in `allowed`."""
    out = []
    for cs in ctx.res.callers_of(target):
        if cs.caller.qualname not in allowed:
            out.append(cs)
    return out


NO_EVAL_MODULES = (
    "pyhms.sprout", "pyhms.stop_conditions", "pyhms.config", "pyhms.initializers", "pyhms.logging_",
    "pyhms.utils.clusterization", "pyhms.utils.print_tree", "pyhms.utils.r5s", "pyhms.utils.cache", "pyhms.utils.distances",
    "pyhms.utils.covariance_estimate", "pyhms.utils.parameter_initializer", "pyhms.utils.deme_performance",
)


def who_may_evaluate(ctx: Ctx, rule: str):
    """Sprouting machinery, stop conditions, reporting and helper modules never invoke the objective (transitively):
    all evaluations of a run happen in deme constructors / run_metaepoch, through the deme's counting wrapper."""
    from ..core import OK, VIOLATION

    obs = []
    n = 0
    for f in ctx.prog.all_functions():
        if not f.module.name.startswith(NO_EVAL_MODULES):
            continue
        n += 1
        if ctx.eff.has(f, "EVAL"):
            e = next(x for x in ctx.eff.of(f) if x[0] == "EVAL")
            obs.append(ctx.ob(rule, f, f.node, status=VIOLATION, detail=f"{f.short} (sprouting / stop-condition / reporting code) invokes the objective: " + " ; ".join(ctx.eff.chain(f, e)[:4]) + " — such evaluations happen outside the metaepoch protocol (after the stop condition, uncounted by the deme that owns them, or while merely looking at the tree)", construct=f.short))
    if n < 100:
        raise AnalysisError(f"only {n} functions in the no-evaluation modules")
    if not obs:
        obs.append(ctx.ob(rule, None, None, subject="pyhms", loc="-", detail=f"{n} functions of the sprouting / stop-condition / reporting / helper modules: none reaches the objective", construct="no-eval-modules"))
    return obs


def objective_function(ctx: Ctx, f: FuncInfo, arg: ast.AST):
    """Resolve the callable handed to an external optimiser to (kind, node, owner FuncInfo | None, return exprs):
    kind in {"method-ref" (bound method such as self._problem.evaluate), "lambda", "def", "unknown"}."""
    defs = local_defs(f)
    e = arg
    hops = 0
    while isinstance(e, ast.Name) and e.id in defs and len(defs[e.id]) == 1 and hops < 4 and e.id not in f.nested:
        e = defs[e.id][0]
        hops += 1
    import copy

    from ..core import _Subst

    def close_over(node, params):
        """Copy of a nested function / lambda with the enclosing function's single-definition locals it captures substituted."""
        own = set(params) | {x.id for x in ast.walk(node) if isinstance(x, ast.Name) and isinstance(x.ctx, ast.Store)}
        cap = {k: v for k, v in defs.items() if k not in own and len(v) == 1 and not isinstance(v[0], (ast.AugAssign, ast.Lambda)) and k not in f.nested}
        return _Subst(cap, 3).visit(copy.deepcopy(node)) if cap else node

    if isinstance(e, ast.Lambda):
        e2 = close_over(e, [a.arg for a in e.args.args])
        return "lambda", e2, None, [e2.body]
    if isinstance(e, ast.Name) and e.id in f.nested:
        nf = f.nested[e.id]
        node2 = close_over(nf.node, nf.params())
        rets = [r.value for r in ast.walk(node2) if isinstance(r, ast.Return) and r.value is not None]
        return "def", node2, nf, rets
    selfn = (f.self_name() if f.parent is None else f.parent.self_name()) or "self"
    if isinstance(e, ast.Attribute) and isinstance(e.value, ast.Name) and e.value.id == selfn and f.cls is not None:
        m = ctx.prog.lookup_method(f.cls, e.attr)
        if m is not None and not m.is_property:
            rets = [r.value for r in ast.walk(m.node) if isinstance(r, ast.Return) and r.value is not None]
            return "def", m.node, m, rets
    if isinstance(e, ast.Attribute):
        return "method-ref", e, None, []
    return "unknown", e, None, []


# ---------------------------------------------------------------- deme listings of DemeTree (all_demes, active_demes, ...)
def _height_offset(e: ast.AST, sn: str):
    """e == <number of levels> + k  ->  k (k <= 0), else None.  `self.height`, `len(self.levels)`, `len(self._levels)`."""
    from ..core import _split_offset, canon

    try:
        base, off = _split_offset(e)
    except Exception:  # pragma: no cover
        return None
    bt = canon(base)
    if bt in (f"{sn}.height", f"len({sn}.levels)", f"len({sn}._levels)"):
        return off
    # len(<prefix of the levels>): the prefix's own length
    if isinstance(base, ast.Call) and canon(base.func) == "len" and len(base.args) == 1 and isinstance(base.args[0], ast.Subscript):
        k = _levels_source(base.args[0], sn)
        if k is not None and k <= 0:
            return k + off
    return None


def _levels_source(e: ast.AST, sn: str):
    """e is the list of levels, or a prefix of it: -> offset k meaning levels[0 : height + k], else None."""
    from ..core import canon

    t = canon(e)
    if t in (f"{sn}.levels", f"{sn}._levels"):
        return 0
    if isinstance(e, ast.Subscript) and canon(e.value) in (f"{sn}.levels", f"{sn}._levels") and isinstance(e.slice, ast.Slice) and e.slice.step is None and (e.slice.lower is None or (isinstance(e.slice.lower, ast.Constant) and e.slice.lower.value == 0)):
        up = e.slice.upper
        if up is None:
            return 0
        if isinstance(up, ast.UnaryOp) and isinstance(up.op, ast.USub) and isinstance(up.operand, ast.Constant) and isinstance(up.operand.value, int):
            return -up.operand.value
        return _height_offset(up, sn)
    return None


def _strip_order(e: ast.AST) -> ast.AST:
    """reversed(X) / list(X) / tuple(X) / X[::-1] / X[:] denote the same elements as X (order aside)."""
    while True:
        if isinstance(e, ast.Call) and isinstance(e.func, ast.Name) and e.func.id in ("reversed", "list", "tuple", "iter") and len(e.args) == 1 and not e.keywords:
            e = e.args[0]
        elif isinstance(e, ast.Subscript) and isinstance(e.slice, ast.Slice) and e.slice.lower is None and e.slice.upper is None:
            e = e.value
        else:
            return e


def _describe_generators(ctx: Ctx, cls_name: str, sn: str, defs: dict, gens: list, elt, self_name_of_accessor: str | None, _depth: int = 0) -> dict:
    """Core of deme_listing / iteration_source: gens = [(target, iter, [conditions])] from the outermost loop inwards."""
    from ..core import canon

    out = {"levels": None, "filters": set(), "elt": "?", "level_no_exact": False, "why": ""}
    idx_vars: dict[str, int] = {}    # level-index variable -> offset of its range
    list_vars: dict[str, tuple] = {}  # level-list variable -> (offset, index var or None)
    deme_var = None
    deme_idx = None
    levels = None
    filters = set()
    inherited_pair = None

    def res(e):
        hops = 0
        while isinstance(e, ast.Name) and e.id in defs and len(defs[e.id]) == 1 and hops < 4:
            e = defs[e.id][0]
            hops += 1
        return e

    for tg, it0, ifs in gens:
        it = _strip_order(it0)
        if isinstance(it, ast.Name) and it.id not in list_vars and it.id not in idx_vars:
            it = _strip_order(res(it))  # a snapshot bound to a local: list(reversed(self.active_non_leaves))
        t_it = canon(it)
        handled = False
        if isinstance(it, ast.Call) and norm(it.func) == "range" and len(it.args) == 1 and isinstance(tg, ast.Name):
            k = _height_offset(res(it.args[0]), sn)
            if k is not None:
                idx_vars[tg.id] = k
                handled = True
        elif isinstance(it, ast.Call) and norm(it.func) == "enumerate" and len(it.args) == 1 and isinstance(tg, ast.Tuple) and len(tg.elts) == 2 and all(isinstance(x, ast.Name) for x in tg.elts):
            k = _levels_source(_strip_order(it.args[0]), sn)
            if k is not None:
                idx_vars[tg.elts[0].id] = k
                list_vars[tg.elts[1].id] = (k, tg.elts[0].id)
                handled = True
        elif _levels_source(it, sn) is not None and isinstance(tg, ast.Name):
            list_vars[tg.id] = (_levels_source(it, sn), None)
            handled = True
        elif isinstance(it, ast.Subscript) and _levels_source(_strip_order(it.value), sn) is not None and isinstance(tg, ast.Name) and isinstance(it.slice, ast.Slice) and it.slice.step is None and (it.slice.lower is None or norm(it.slice.lower) == "0"):
            # self.levels[:H] (possibly after a reversal of the whole list): a prefix of the levels
            k = _levels_source(ast.Subscript(value=_strip_order(it.value), slice=it.slice, ctx=ast.Load()), sn)
            if k is not None:
                list_vars[tg.id] = (k, None)
                handled = True
        elif isinstance(it, ast.Subscript) and canon(it.value) in (f"{sn}.levels", f"{sn}._levels") and isinstance(it.slice, ast.Name) and it.slice.id in idx_vars and isinstance(tg, ast.Name):
            deme_var, deme_idx, levels = tg.id, it.slice.id, idx_vars[it.slice.id]
            handled = True
        elif isinstance(it, ast.Name) and it.id in list_vars and isinstance(tg, ast.Name):
            deme_var, levels, deme_idx = tg.id, list_vars[it.id][0], list_vars[it.id][1]
            handled = True
        elif is_self_attr(it, None, sn) and it.attr in ("all_demes", "active_demes", "active_non_leaves") and it.attr != self_name_of_accessor and isinstance(tg, ast.Tuple) and len(tg.elts) == 2 and all(isinstance(x, ast.Name) for x in tg.elts):
            sub = deme_listing(ctx, cls_name, it.attr, _depth + 1)
            if sub["levels"] is not None and sub["elt"] == "pair":
                levels, deme_var, deme_idx = sub["levels"], tg.elts[1].id, tg.elts[0].id
                idx_vars[deme_idx] = levels
                filters |= sub["filters"]
                inherited_pair = sub["level_no_exact"]
                handled = True
        elif isinstance(res(it), (ast.ListComp, ast.GeneratorExp)) and _depth < 3:
            # a local list built by a comprehension (a snapshot): describe that comprehension
            comp = res(it)
            sub = _describe_generators(ctx, cls_name, sn, defs, [(g.target, g.iter, list(g.ifs)) for g in comp.generators], comp.elt, self_name_of_accessor, _depth + 1)
            if sub["levels"] is not None and sub["elt"] in ("pair", "deme"):
                levels = sub["levels"]
                filters |= sub["filters"]
                if sub["elt"] == "pair" and isinstance(tg, ast.Tuple) and len(tg.elts) == 2 and all(isinstance(x, ast.Name) for x in tg.elts):
                    deme_var, deme_idx = tg.elts[1].id, tg.elts[0].id
                    idx_vars[deme_idx] = levels
                    inherited_pair = sub["level_no_exact"]
                    handled = True
                elif sub["elt"] == "deme" and isinstance(tg, ast.Name):
                    deme_var, deme_idx = tg.id, None
                    handled = True
        if not handled:
            out["why"] = f"iterates `{t_it[:60]}`"
            return out
        for c in ifs:
            conj = c.values if isinstance(c, ast.BoolOp) and isinstance(c.op, ast.And) else [c]
            for cc in conj:
                tc = canon(cc)
                if deme_var and tc in (f"{deme_var}.is_active", f"{deme_var}._active"):
                    filters.add("is_active")
                elif deme_var and tc in (f"not{deme_var}.is_active", f"not{deme_var}._active"):
                    filters.add("not is_active")
                elif deme_idx and isinstance(cc, ast.Compare) and len(cc.ops) == 1 and isinstance(cc.left, ast.Name) and cc.left.id == deme_idx and isinstance(cc.ops[0], (ast.Lt, ast.LtE, ast.NotEq)):
                    k = _height_offset(res(cc.comparators[0]), sn)
                    if k is None:
                        filters.add("?" + tc)
                    elif isinstance(cc.ops[0], ast.Lt):
                        levels = min(levels, k)
                    elif isinstance(cc.ops[0], ast.LtE):
                        levels = min(levels, k + 1)
                    elif k == (levels - 1):  # i != last index of the range
                        levels = levels - 1
                    else:
                        filters.add("?" + tc)
                else:
                    filters.add("?" + tc)
    if deme_var is None:
        out["why"] = "no deme variable found"
        return out
    e = elt
    if isinstance(e, ast.Tuple) and len(e.elts) == 2 and isinstance(e.elts[1], ast.Name) and e.elts[1].id == deme_var:
        out["elt"] = "pair"
        out["level_no_exact"] = isinstance(e.elts[0], ast.Name) and e.elts[0].id == deme_idx and (inherited_pair is not False)
    elif isinstance(e, ast.Name) and e.id == deme_var:
        out["elt"] = "deme"
    out["levels"] = levels
    out["filters"] = filters
    out["deme_var"] = deme_var
    return out


def deme_listing(ctx: Ctx, cls_name: str, accessor: str, _depth: int = 0) -> dict:
    """What a DemeTree listing accessor enumerates, read off its (normalised) comprehension:
    levels: k <= 0 meaning the levels [0, height + k), or None (not understood);  filters: set of 'is_active' / 'not is_active'
    / '?<text>';  elt: 'pair' (level number, deme) / 'deme' / '?';  level_no_exact: the number paired with a deme is the index
    of the level list the deme was taken from;  why: reason when something is not understood.
    Accessors built on other accessors (`[(l, d) for l, d in self.all_demes if d.is_active]`) are resolved recursively."""
    out = {"levels": None, "filters": set(), "elt": "?", "level_no_exact": False, "why": ""}
    try:
        m = ctx.prog.own_method(cls_name, accessor)
    except Exception:
        m = None
    if m is None or _depth > 3:
        out["why"] = f"{accessor} not found"
        return out
    sn = m.self_name()
    rets = [r for r in body_walk(m.node) if isinstance(r, ast.Return) and r.value is not None]
    if len(rets) != 1:
        out["why"] = f"{accessor} has {len(rets)} returns"
        return out
    defs = local_defs(m)
    v = rets[0].value
    hops = 0
    while isinstance(v, ast.Name) and v.id in defs and len(defs[v.id]) == 1 and hops < 4:
        v = defs[v.id][0]
        hops += 1
    v = _strip_order(v) if isinstance(v, ast.Call) and norm(v.func) == "list" else v
    if is_self_attr(v, None, sn) and v.attr in ("all_demes", "active_demes", "active_non_leaves") and v.attr != accessor:
        return deme_listing(ctx, cls_name, v.attr, _depth + 1)
    if not isinstance(v, (ast.ListComp, ast.GeneratorExp)):
        out["why"] = f"{accessor} returns `{norm(v)[:60]}`, not a comprehension"
        return out
    res = _describe_generators(ctx, cls_name, sn, defs, [(g.target, g.iter, list(g.ifs)) for g in v.generators], v.elt, accessor, _depth)
    if res["why"]:
        res["why"] = f"{accessor} " + res["why"]
    return res


def iteration_source(ctx: Ctx, cls_name: str, f: FuncInfo, loop: ast.For) -> dict:
    """What a `for` loop inside a DemeTree method iterates, in the terms of deme_listing: the chain of enclosing `for` loops
    (outermost first) plus the `if` guards that wrap the innermost body are read as the generators / filters of one
    comprehension whose element is the innermost loop variable (or its deme component)."""
    sn = f.self_name()
    defs = local_defs(f)
    chain = []

    def find(stmts, path):
        for st in stmts:
            if st is loop:
                chain.extend(path + [st])
                return True
            for fld in ("body", "orelse"):
                b = getattr(st, fld, None)
                if isinstance(b, list) and b and isinstance(b[0], ast.stmt):
                    if find(b, path + ([st] if isinstance(st, ast.For) else [])):
                        return True
        return False

    find(f.node.body, [])
    if not chain:
        return {"levels": None, "filters": set(), "elt": "?", "level_no_exact": False, "why": "loop not found"}
    gens = [(lp.target, lp.iter, []) for lp in chain]
    body = loop.body
    # only guards about the deme's activity / level belong to the source; other conditions (hibernation, options) stay
    while len(body) == 1 and isinstance(body[0], ast.If) and not body[0].orelse and any(isinstance(x, ast.Attribute) and x.attr in ("is_active", "_active", "level", "_level") for x in ast.walk(body[0].test)) and not any(isinstance(x, ast.Attribute) and x.attr == "_hibernating" for x in ast.walk(body[0].test)):
        gens[-1][2].append(body[0].test)
        body = body[0].body
    tg = loop.target
    elt = tg if isinstance(tg, ast.Name) else (ast.Tuple(elts=list(tg.elts), ctx=ast.Load()) if isinstance(tg, ast.Tuple) else tg)
    # hibernation / option conditions are not part of the source: keep only conditions about the deme's activity or level
    res = _describe_generators(ctx, cls_name, sn, defs, gens, elt, None)
    res["body"] = body
    return res


def ctor_arguments(ctx: Ctx, call: ast.Call, cls_name: str) -> dict | None:
    """field name -> argument expression of a constructor call, positional arguments mapped through the dataclass field order
    (annotated class attributes) or the __init__ parameters.  None if the class or an argument cannot be mapped."""
    try:
        ci = ctx.prog.cls(cls_name)
    except Exception:
        return None
    init = ci.methods.get("__init__")
    if init is not None:
        names = init.params()[1:]
    else:
        names = [st.target.id for st in ci.node.body if isinstance(st, ast.AnnAssign) and isinstance(st.target, ast.Name)]
    if any(isinstance(a, ast.Starred) for a in call.args) or any(k.arg is None for k in call.keywords) or len(call.args) > len(names):
        return None
    out = dict(zip(names, call.args))
    for k in call.keywords:
        out[k.arg] = k.value
    return out


def step_method(ctx: Ctx, ci) -> FuncInfo | None:
    """The method that implements a deme class's metaepoch: run_metaepoch, or - when that is a bare delegation
    `self.<m>(...)` to a (possibly inherited) template method - the method delegated to."""
    f = ctx.prog.lookup_method(ci, "run_metaepoch")
    hops = 0
    while f is not None and hops < 3:
        body = [s for s in f.node.body if not (isinstance(s, ast.Expr) and isinstance(s.value, ast.Constant))]
        if len(body) == 1 and isinstance(body[0], (ast.Expr, ast.Return)) and isinstance(body[0].value, ast.Call):
            c = body[0].value
            if isinstance(c.func, ast.Attribute) and isinstance(c.func.value, ast.Name) and c.func.value.id == f.self_name():
                m = ctx.prog.lookup_method(ci, c.func.attr)
                if m is not None and m is not f:
                    f = m
                    hops += 1
                    continue
        break
    return f


def opaque_step_helpers(ctx: Ctx, f: FuncInfo) -> list[ast.Call]:
    """Calls in f to methods of the same object (`self._helper(...)`) that were not inlined and that evaluate the objective or
    receive the tree: part of the metaepoch's control flow (generation loop, stop-condition consults) lives in them, out of
    sight of an intraprocedural rule.  Engine objects (`self._ea.run`) and logging are not meant."""
    sn = f.self_name()
    out = []
    if sn is None:
        return out
    for cs in ctx.res.callsites(f):
        c = cs.node
        if not (isinstance(c, ast.Call) and isinstance(c.func, ast.Attribute) and isinstance(c.func.value, ast.Name) and c.func.value.id == sn):
            continue
        if c.func.attr in ("log", "run", "add_child") or not c.func.attr.startswith("_"):
            continue
        tree_arg = any(isinstance(a, ast.Name) and a.id in f.params()[1:2] for a in c.args)
        if any(ctx.eff.has(t, "EVAL") for t in cs.targets) and (tree_arg or any(stop_calls_in(ctx, t, t.node, "gsc") for t in cs.targets)):
            out.append(c)
    # a local function that evaluates, handed to a higher-order call (itertools.accumulate, map, reduce, ...): the evaluations
    # happen lazily inside the iterator, wherever it is advanced
    for nm, g in getattr(f, "nested", {}).items():
        if not ctx.eff.has(g, "EVAL"):
            continue
        for c in body_walk(f.node):
            if isinstance(c, ast.Call) and norm(c.func).split(".")[-1] in ("accumulate", "reduce", "map", "starmap", "iter", "partial", "filter", "takewhile", "dropwhile") and any(isinstance(a, ast.Name) and a.id == nm for a in list(c.args) + [k.value for k in c.keywords]):
                out.append(c)
    # a stop-condition consult wrapped in a lambda and handed to a call (a table of lazily consulted checks): when, in which
    # order and whether it is consulted is decided by the callee
    for c in body_walk(f.node):
        if not isinstance(c, ast.Call):
            continue
        for a in list(c.args) + [k.value for k in c.keywords]:
            lams = [x for x in ast.walk(a) if isinstance(x, ast.Lambda)]
            if any(isinstance(y, ast.Call) and isinstance(y.func, ast.Attribute) and y.func.attr in ("_gsc", "_lsc") for l_ in lams for y in ast.walk(l_.body)):
                out.append(c)
                break
    return out


def private_closure(ctx: Ctx, allowed: set[str]) -> set[str]:
    """`allowed` (qualnames) plus every private function / method (leading underscore, not dunder) all of whose call sites in
    pyhms lie in the set: code that was merely moved out of an allowed function into a helper stays behind that function."""
    out = set(allowed)
    grew = True
    while grew:
        grew = False
        for g in ctx.prog.all_functions():
            if g.qualname in out or g.name == "<module>" or not (g.name.startswith("_") and not g.name.startswith("__")):
                continue
            callers = ctx.res.callers_of(g)
            if callers and all(cs.caller.qualname in out for cs in callers):
                out.add(g.qualname)
                grew = True
    return out


def opaque_deme_calls(ctx: Ctx, f: FuncInfo, within: ast.AST, attr: str) -> list[ast.Call]:
    """Calls inside `within` to private methods of another object whose (transitive) effects or body mention `attr`
    (e.g. `deme._is_suspended(options)` reading `_hibernating`): logic about `attr` that lives behind a method call."""
    out = []
    inside = {id(x) for x in ast.walk(within)}
    for cs in ctx.res.callsites(f):
        c = cs.node
        if id(c) not in inside or not (isinstance(c, ast.Call) and isinstance(c.func, ast.Attribute) and c.func.attr.startswith("_") and not c.func.attr.startswith("__")):
            continue
        if isinstance(c.func.value, ast.Name) and c.func.value.id == f.self_name():
            continue
        if any(any(isinstance(x, ast.Attribute) and x.attr == attr for x in ast.walk(t.node)) for t in cs.targets):
            out.append(c)
    return out


def dict_alternatives(ctx: Ctx, f: FuncInfo, e: ast.AST, _depth: int = 0, _bind: dict | None = None):
    """The dictionaries an expression can denote, as a list of {constant key: value expression} (one per reaching
    definition / branch), or None when it cannot be followed.  Understood: dict literals incl. `**other`, `dict(other, k=v)`,
    `other.copy()`, `a | b`, locals (every definition is an alternative; later `name[k] = v` stores are added - a store under
    `if P is not None` / `if P:` for a parameter P of a helper is added only when the call passes P), and calls of a helper
    (same class or module) that returns one local dictionary.  `_bind`: parameter -> argument expression or None (not passed)."""
    from ..core import local_defs, parents_map

    if _depth > 9:
        return None
    bind = _bind or {}

    def sub(x):
        class S(ast.NodeTransformer):
            def visit_Name(self, node):
                if isinstance(node.ctx, ast.Load) and bind.get(node.id) is not None:
                    return bind[node.id]
                return node

        import copy

        return S().visit(copy.deepcopy(x)) if bind else x

    if isinstance(e, ast.Dict):
        alts = [{}]
        for k, v in zip(e.keys, e.values):
            if k is None:
                inner = dict_alternatives(ctx, f, v, _depth + 1, bind)
                if inner is None:
                    return None
                alts = [dict(a, **i) for a in alts for i in inner]
            elif isinstance(k, ast.Constant):
                for a in alts:
                    a[k.value] = sub(v)
            else:
                return None
        return alts
    if isinstance(e, ast.Call) and norm(e.func) == "dict":
        alts = [{}]
        if e.args:
            inner = dict_alternatives(ctx, f, e.args[0], _depth + 1, bind)
            if inner is None:
                return None
            alts = [dict(i) for i in inner]
        for k in e.keywords:
            if k.arg is None:
                inner = dict_alternatives(ctx, f, k.value, _depth + 1, bind)
                if inner is None:
                    return None
                alts = [dict(a, **i) for a in alts for i in inner]
            else:
                for a in alts:
                    a[k.arg] = sub(k.value)
        return alts
    if isinstance(e, ast.Call) and isinstance(e.func, ast.Attribute) and e.func.attr == "copy" and not e.args:
        return dict_alternatives(ctx, f, e.func.value, _depth + 1, bind)
    if isinstance(e, ast.BinOp) and isinstance(e.op, ast.BitOr):
        l, r = dict_alternatives(ctx, f, e.left, _depth + 1, bind), dict_alternatives(ctx, f, e.right, _depth + 1, bind)
        if l is None or r is None:
            return None
        return [dict(a, **b) for a in l for b in r]
    if isinstance(e, ast.Name):
        if e.id in bind:
            return dict_alternatives(ctx, f, bind[e.id], _depth + 1, None) if bind[e.id] is not None else None
        defs = [d for d in local_defs(f).get(e.id, []) if not isinstance(d, ast.AugAssign)]
        if not defs:
            return None
        alts = []
        for d in defs:
            inner = dict_alternatives(ctx, f, d, _depth + 1, bind)
            if inner is None:
                return None
            alts.extend(inner)
        par = parents_map(f.node)
        params = set(f.params())
        for n in body_walk(f.node):
            if isinstance(n, ast.Assign) and len(n.targets) == 1 and isinstance(n.targets[0], ast.Subscript) and norm(n.targets[0].value) == e.id and isinstance(n.targets[0].slice, ast.Constant):
                present = True
                cur = n
                while id(cur) in par and present is True:
                    p = par[id(cur)]
                    if isinstance(p, ast.If):
                        t = p.test
                        neg = cur in p.orelse
                        pname = None
                        if isinstance(t, ast.Compare) and len(t.ops) == 1 and isinstance(t.left, ast.Name) and isinstance(t.comparators[0], ast.Constant) and t.comparators[0].value is None and isinstance(t.ops[0], (ast.IsNot, ast.NotEq)):
                            pname = t.left.id
                        elif isinstance(t, ast.Name):
                            pname = t.id
                        if pname is not None and pname in params and pname in bind and not neg:
                            a_ = bind[pname]
                            present = a_ is not None and not (isinstance(a_, ast.Constant) and a_.value is None)
                            if present and not (isinstance(a_, (ast.Attribute, ast.Subscript, ast.List, ast.Tuple, ast.Call, ast.BinOp)) or (isinstance(a_, ast.Constant) and a_.value is not None)):
                                present = None
                        else:
                            present = None  # a condition this reader does not evaluate
                    cur = p
                if present is True:
                    for a in alts:
                        a[n.targets[0].slice.value] = sub(n.value)
                elif present is None:
                    for a in alts:
                        a.setdefault(n.targets[0].slice.value, ("maybe", sub(n.value)))
        return alts
    if isinstance(e, ast.Call):
        cs = next((c_ for c_ in ctx.res.callsites(f) if c_.node is e), None)
        tg = cs.targets if cs is not None else []
        if len(tg) != 1:
            return None
        h = tg[0]
        rets = [r for r in body_walk(h.node) if isinstance(r, ast.Return) and r.value is not None]
        if len(rets) != 1:
            return None
        a = h.node.args
        names = [x.arg for x in a.posonlyargs + a.args]
        if h.cls is not None and names and not any(norm(d) == "staticmethod" for d in h.node.decorator_list):
            names = names[1:]
        hb = {n_: None for n_ in names + [x.arg for x in a.kwonlyargs]}
        for n_, v in zip(names, e.args):
            hb[n_] = sub(v)
        extra = {}
        for k in e.keywords:
            if k.arg in hb:
                hb[k.arg] = sub(k.value)
            elif k.arg is not None and a.kwarg is not None:
                extra[k.arg] = sub(k.value)
            else:
                return None
        if a.kwarg is not None:
            hb[a.kwarg.arg] = ast.Dict(keys=[ast.Constant(value=k_) for k_ in extra], values=list(extra.values()))
        return dict_alternatives(ctx, h, rets[0].value, _depth + 1, hb)
    return None


def foreign_history_writes(ctx: Ctx, rule: str, why: str, own_step_edits: bool = True, foreign: bool = True, carry_ok: bool = False):
    """A deme's `_history` is written only by the deme's own methods (through `self`).  Any other code that appends to /
    rebinds / edits `<deme>._history` records generations the deme never bred (or removes some): -> obligations (one OK
    summary when there is none)."""
    from ..core import VIOLATION as _V

    MUT = ("append", "extend", "insert", "pop", "remove", "clear", "reverse", "sort")
    base = ctx.prog.cls("AbstractDeme")
    obs = []
    n = 0
    for f in ctx.prog.all_functions():
        if f.name == "<module>":
            continue
        own = f.cls is not None and (f.cls is base or ctx.prog.is_subclass(f.cls, base))
        sn = (f.self_name() if f.parent is None else f.parent.self_name()) if own else None
        for x in body_walk(f.node):
            tgt = None
            if isinstance(x, ast.Call) and isinstance(x.func, ast.Attribute) and x.func.attr in MUT:
                tgt = x.func.value
            elif isinstance(x, (ast.Assign, ast.AugAssign, ast.Delete)):
                for t in (x.targets if isinstance(x, (ast.Assign, ast.Delete)) else [x.target]):
                    tgt = t
                    while isinstance(tgt, ast.Subscript):
                        tgt = tgt.value
                    if isinstance(tgt, ast.Attribute) and tgt.attr == "_history":
                        break
                    tgt = None
            while isinstance(tgt, ast.Subscript):
                tgt = tgt.value
            if not (isinstance(tgt, ast.Attribute) and tgt.attr == "_history"):
                continue
            n += 1
            if own and isinstance(tgt.value, ast.Name) and tgt.value.id == sn:
                continue
            if carry_ok and isinstance(x, ast.Call) and x.func.attr == "append" and len(x.args) == 1 and isinstance(x.args[0], ast.List) and len(x.args[0].elts) == 1 and norm(x.args[0].elts[0]) in (f"{norm(tgt.value)}.current_population", f"{norm(tgt.value)}._history[-1][-1]"):
                continue  # the current population recorded once more: every individual of it belonged to the preceding generation
            if foreign:
                obs.append(ctx.ob(rule, f, x, status=_V, detail=f"{f.short} writes another object's history (`{norm(x)[:70]}`): {why}", construct=f"foreign-history-write:{f.short}"))
    # a recorded generation edited in place through a local alias: `g = self._history[-1][-1]; g[i] = x` / `g.remove(x)`
    for f in ctx.prog.all_functions():
        if f.name == "<module>":
            continue
        alias = {}
        for y in body_walk(f.node):
            if isinstance(y, ast.Assign) and len(y.targets) == 1 and isinstance(y.targets[0], ast.Name):
                v = y.value
                root = v
                while isinstance(root, ast.Subscript):
                    root = root.value
                if isinstance(v, ast.Subscript) and isinstance(root, ast.Attribute) and root.attr in ("_history", "history"):
                    alias[y.targets[0].id] = y
                elif isinstance(v, ast.Attribute) and v.attr in ("current_population",) :
                    alias[y.targets[0].id] = y
        if not alias:
            continue
        if not own_step_edits and f.cls is not None and (f.cls is base or ctx.prog.is_subclass(f.cls, base)) and f.self_name() is not None:
            # the deme edits its OWN record while it runs (it is active and awake then): whether a recorded generation may
            # change at all is C02's / C11's question, not the caller's
            alias = {k: y for k, y in alias.items() if not any(isinstance(z, ast.Name) and z.id == f.self_name() for z in ast.walk(y.value))}
            if not alias:
                continue
        for x in body_walk(f.node):
            tgt = None
            if isinstance(x, ast.Call) and isinstance(x.func, ast.Attribute) and x.func.attr in MUT and isinstance(x.func.value, ast.Name):
                tgt = x.func.value.id
            elif isinstance(x, (ast.Assign, ast.AugAssign, ast.Delete)):
                for t in (x.targets if isinstance(x, (ast.Assign, ast.Delete)) else [x.target]):
                    if isinstance(t, ast.Subscript) and isinstance(t.value, ast.Name):
                        tgt = t.value.id
            if tgt in alias:
                rebound = [y for y in body_walk(f.node) if isinstance(y, ast.Assign) and any(isinstance(t, ast.Name) and t.id == tgt for t in y.targets)]
                if len(rebound) == 1:
                    obs.append(ctx.ob(rule, f, x, status=_V, detail=f"{f.short} edits a recorded generation in place (`{norm(alias[tgt])[:50]}`; `{norm(x)[:60]}`): {why}", construct=f"history-edit:{f.short}"))
    if not obs:
        obs.append(ctx.ob(rule, None, None, subject="pyhms", loc="-", detail=f"every one of the {n} writes to a `_history` is made by the deme itself through `self`", construct="foreign-history-write"))
    return obs


def default_truth(f: FuncInfo, test: ast.AST):
    """True / False / None: the outcome of `test` when every optional parameter of f it mentions has its DEFAULT value (the
    properties speak about the documented calls; what a new opt-in parameter does when it is given is that feature's own
    business). Only parameters with a constant default that the body never rebinds are evaluated."""
    a = f.node.args
    pos = a.posonlyargs + a.args
    dmap = dict(zip([x.arg for x in pos][len(pos) - len(a.defaults):], a.defaults)) if a.defaults else {}
    dmap.update({k.arg: d for k, d in zip(a.kwonlyargs, a.kw_defaults) if d is not None})
    rebound = {t.id for n in ast.walk(f.node) for t in ast.walk(n) if isinstance(t, ast.Name) and isinstance(t.ctx, ast.Store)}
    dmap = {k: v for k, v in dmap.items() if isinstance(v, ast.Constant) and k not in rebound}
    if not dmap:
        return None
    # a local that starts as a copy of a None-default parameter and is otherwise only changed by augmented assignments
    # (`steps_left = max_steps; ...; steps_left -= 1`): arithmetic on None raises, so on every completed path it is still None
    from ..core import local_defs as _ld

    for nm, ds in _ld(f).items():
        plain = [d for d in ds if not isinstance(d, ast.AugAssign)]
        if nm not in dmap and plain and all((isinstance(d, ast.Name) and d.id in dmap and dmap[d.id].value is None) or (isinstance(d, ast.Constant) and d.value is None) for d in plain):
            dmap[nm] = ast.Constant(value=None)

    def val(e):
        """('c', python value) | None"""
        if isinstance(e, ast.Constant):
            return ("c", e.value)
        if isinstance(e, ast.Name) and e.id in dmap:
            return ("c", dmap[e.id].value)
        return None

    def tv(e):
        if isinstance(e, ast.UnaryOp) and isinstance(e.op, ast.Not):
            r = tv(e.operand)
            return None if r is None else (not r)
        if isinstance(e, ast.BoolOp):
            rs = [tv(v) for v in e.values]
            if isinstance(e.op, ast.And):
                if any(r is False for r in rs):
                    # a False conjunct decides only if everything evaluated before it is decided too (short circuit)
                    for r in rs:
                        if r is False:
                            return False
                        if r is None:
                            return None
                return True if all(r is True for r in rs) else None
            for r in rs:
                if r is True:
                    return True
                if r is None:
                    return None
            return False
        if isinstance(e, ast.Compare) and len(e.ops) == 1:
            l, r = val(e.left), val(e.comparators[0])
            if l is None or r is None:
                return None
            if not (any(isinstance(x, ast.Name) and x.id in dmap for x in (e.left, e.comparators[0]))):
                return None
            op = e.ops[0]
            try:
                if isinstance(op, ast.Is):
                    return l[1] is r[1]
                if isinstance(op, ast.IsNot):
                    return l[1] is not r[1]
                if isinstance(op, ast.Eq):
                    return l[1] == r[1]
                if isinstance(op, ast.NotEq):
                    return l[1] != r[1]
                if l[1] is None or r[1] is None:
                    return None
                if isinstance(op, ast.Lt):
                    return l[1] < r[1]
                if isinstance(op, ast.LtE):
                    return l[1] <= r[1]
                if isinstance(op, ast.Gt):
                    return l[1] > r[1]
                if isinstance(op, ast.GtE):
                    return l[1] >= r[1]
            except TypeError:
                return None
            return None
        v = val(e)
        if v is not None and isinstance(e, ast.Name):
            return bool(v[1])
        return None

    return tv(test)
