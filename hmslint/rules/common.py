"""Helpers shared by several rule modules: stop-condition consults, history appends,
activity stores, evaluation sites."""
from __future__ import annotations

import ast

from ..cfg import CFG, Node
from ..core import Ctx, is_self_attr, local_defs
from ..model import AnalysisError, FuncInfo, body_walk, norm


def _sc_targets(ctx: Ctx, base_name: str) -> set[str]:
    ci = ctx.prog.cls(base_name)
    return {m.qualname for m in ctx.res.dispatch(ci, "__call__")}


def stop_call_kind(ctx: Ctx, f: FuncInfo, call: ast.Call) -> str | None:
    """'gsc' / 'lsc' when the call invokes a global / local stop condition object."""
    for cs in ctx.res.callsites(f):
        if cs.node is call:
            tq = {t.qualname for t in cs.targets}
            g = ctx.prog.cls("GlobalStopCondition").methods.get("__call__")
            l = ctx.prog.cls("LocalStopCondition").methods.get("__call__")
            if g is not None and g.qualname in tq:
                return "gsc"
            if l is not None and l.qualname in tq:
                return "lsc"
            if cs.unresolved or cs.cha or not cs.targets:
                # unresolved receiver: fall back on the attribute name the repo uses
                txt = norm(call.func)
                if txt.endswith("._gsc") or txt.endswith(".gsc"):
                    return "gsc"
                if txt.endswith("._lsc") or txt.endswith(".lsc"):
                    return "lsc"
            return None
    return None


def stop_calls_in(ctx: Ctx, f: FuncInfo, expr: ast.AST, kind: str) -> list[ast.Call]:
    return [c for c in ast.walk(expr) if isinstance(c, ast.Call) and stop_call_kind(ctx, f, c) == kind]


def sc_valued_names(ctx: Ctx, f: FuncInfo, kind: str) -> set[str]:
    """Local names all of whose definitions are results of a stop-condition call of that kind
    (possibly negated: tracked separately by cond_polarity)."""
    out = set()
    for name, defs in local_defs(f).items():
        ok = bool(defs)
        for d in defs:
            core = d
            if isinstance(core, ast.UnaryOp) and isinstance(core.op, ast.Not):
                core = core.operand
            if not (isinstance(core, ast.Call) and stop_call_kind(ctx, f, core) == kind):
                ok = False
        if ok:
            out.add(name)
    return out


def sc_flag_names(ctx: Ctx, f: FuncInfo, kind: str) -> set[str]:
    """Local flags: every definition is a stop-condition call of that kind, `flag or <call>`, or a constant False / None
    initialiser (at least one of each).  A true flag implies that some consult returned true; a false flag implies nothing."""
    out = set()
    for name, defs in local_defs(f).items():
        calls = consts = 0
        ok = True
        for d in defs:
            core = d
            if isinstance(core, ast.BoolOp) and isinstance(core.op, ast.Or) and len(core.values) == 2 and isinstance(core.values[0], ast.Name) and core.values[0].id == name:
                core = core.values[1]
            if isinstance(core, ast.Call) and stop_call_kind(ctx, f, core) == kind:
                calls += 1
            elif isinstance(core, ast.Constant) and core.value in (False, None):
                consts += 1
            else:
                ok = False
        if ok and calls and consts:
            out.add(name)
    return out


def consult_verdict(ctx: Ctx, f: FuncInfo, node: Node, kind: str, lab):
    """The stop condition's verdict established by leaving cond node `node` through edge `lab`:
    True / False, None (no information), or "?" (consulted in a form the analyser cannot attribute)."""
    pol = cond_consult(ctx, f, node, kind)
    if pol == 2:
        return "?"
    if pol == 0 or lab not in (True, False):
        return None
    if pol == 3:
        return True if lab else None
    return lab if pol == 1 else (not lab)


def cond_consult(ctx: Ctx, f: FuncInfo, node: Node, kind: str) -> int:
    """For a cond node: +1 if its truth equals the stop condition's verdict, -1 if it is the
    negation, 0 if the node does not consult a stop condition of that kind.
    (CFG construction already strips `not` and splits and/or, so the node's expression is atomic.)"""
    if node.kind != "cond" or node.ast is None:
        return 0
    e = node.ast
    if isinstance(e, ast.NamedExpr):
        e = e.value
    if isinstance(e, ast.Call) and stop_call_kind(ctx, f, e) == kind:
        return 1
    if isinstance(e, ast.Name) and e.id in sc_valued_names(ctx, f, kind):
        defs = local_defs(f)[e.id]
        neg = [isinstance(d, ast.UnaryOp) and isinstance(d.op, ast.Not) for d in defs]
        if all(neg):
            return -1
        if not any(neg):
            return 1
        return 0
    if isinstance(e, ast.Name) and e.id in sc_flag_names(ctx, f, kind):
        return 3
    if isinstance(e, ast.Compare) and len(e.ops) == 1 and isinstance(e.ops[0], (ast.Is, ast.Eq, ast.IsNot, ast.NotEq)):
        # `gsc(tree) is True` / `== False`
        l, r = e.left, e.comparators[0]
        for a, b in ((l, r), (r, l)):
            if isinstance(b, ast.Constant) and isinstance(b.value, bool):
                inner = a.value if isinstance(a, ast.NamedExpr) else a
                if isinstance(inner, ast.Call) and stop_call_kind(ctx, f, inner) == kind:
                    pol = 1 if b.value else -1
                    if isinstance(e.ops[0], (ast.IsNot, ast.NotEq)):
                        pol = -pol
                    return pol
    # a stop-condition call buried in a larger expression: the analyser cannot attribute the outcome
    if stop_calls_in(ctx, f, node.ast, kind):
        return 2  # "consulted, polarity unknown"
    return 0


def node_has_effect(ctx: Ctx, f: FuncInfo, node: Node, kind: str) -> bool:
    if node.ast is None or node.kind in ("entry", "exit", "def"):
        return False
    a = node.ast
    if node.kind == "except":
        return False
    return any(e[0] == kind for e in ctx.eff.stmt_effects(f, a))


def is_history_append(stmt: ast.AST, selfn: str = "self") -> bool:
    """`self._history.append(...)` as an expression statement."""
    if isinstance(stmt, ast.Expr) and isinstance(stmt.value, ast.Call):
        fn = stmt.value.func
        return isinstance(fn, ast.Attribute) and fn.attr in ("append",) and is_self_attr(fn.value, "_history", selfn)
    return False


def history_mutations(stmt: ast.AST, selfn: str = "self") -> list[str]:
    """Any other way a statement can change self._history (extend/insert/+=/item store/rebinding)."""
    out = []
    for n in ast.walk(stmt):
        if isinstance(n, ast.Call) and isinstance(n.func, ast.Attribute) and is_self_attr(n.func.value, "_history", selfn):
            if n.func.attr not in ("append",) and n.func.attr in ("extend", "insert", "pop", "remove", "clear", "sort", "reverse", "__setitem__", "__delitem__"):
                out.append(norm(n))
    tg = []
    if isinstance(stmt, ast.Assign):
        tg = stmt.targets
    elif isinstance(stmt, (ast.AugAssign, ast.AnnAssign)):
        tg = [stmt.target]
    elif isinstance(stmt, ast.Delete):
        tg = stmt.targets
    for t in tg:
        base = t
        while isinstance(base, ast.Subscript):
            base = base.value
        if is_self_attr(base, "_history", selfn):
            out.append(norm(stmt))
    return out


def active_store(stmt: ast.AST, selfn: str = "self"):
    """Returns the assigned value expression if stmt stores to <selfn>._active, else None."""
    if isinstance(stmt, ast.Assign):
        for t in stmt.targets:
            if is_self_attr(t, "_active", selfn):
                return stmt.value
    if isinstance(stmt, ast.AnnAssign) and is_self_attr(stmt.target, "_active", selfn) and stmt.value is not None:
        return stmt.value
    if isinstance(stmt, ast.AugAssign) and is_self_attr(stmt.target, "_active", selfn):
        return stmt
    return None


def calls_method(stmt: ast.AST, ctx: Ctx, f: FuncInfo, target: FuncInfo) -> bool:
    inside = {id(x) for x in ast.walk(stmt)}
    for cs in ctx.res.callsites(f):
        if id(cs.node) in inside and target in cs.targets:
            return True
    return False


def callers_outside(ctx: Ctx, target: FuncInfo, allowed: set[str]) -> list:
    """Call sites of target whose caller qualname is not in `allowed`."""
    out = []
    for cs in ctx.res.callers_of(target):
        if cs.caller.qualname not in allowed:
            out.append(cs)
    return out


NO_EVAL_MODULES = (
    "pyhms.sprout", "pyhms.stop_conditions", "pyhms.config", "pyhms.initializers", "pyhms.logging_",
    "pyhms.utils.clusterization", "pyhms.utils.print_tree", "pyhms.utils.r5s", "pyhms.utils.cache", "pyhms.utils.distances",
    "pyhms.utils.covariance_estimate", "pyhms.utils.parameter_initializer", "pyhms.utils.deme_performance",
)


def who_may_evaluate(ctx: Ctx, rule: str):
    """Sprouting machinery, stop conditions, reporting and helper modules never invoke the objective (transitively):
    all evaluations of a run happen in deme constructors / run_metaepoch, through the deme's counting wrapper."""
    from ..core import OK, VIOLATION

    obs = []
    n = 0
    for f in ctx.prog.all_functions():
        if not f.module.name.startswith(NO_EVAL_MODULES):
            continue
        n += 1
        if ctx.eff.has(f, "EVAL"):
            e = next(x for x in ctx.eff.of(f) if x[0] == "EVAL")
            obs.append(ctx.ob(rule, f, f.node, status=VIOLATION, detail=f"{f.short} (sprouting / stop-condition / reporting code) invokes the objective: " + " ; ".join(ctx.eff.chain(f, e)[:4]) + " — such evaluations happen outside the metaepoch protocol (after the stop condition, uncounted by the deme that owns them, or while merely looking at the tree)", construct=f.short))
    if n < 100:
        raise AnalysisError(f"only {n} functions in the no-evaluation modules")
    if not obs:
        obs.append(ctx.ob(rule, None, None, subject="pyhms", loc="-", detail=f"{n} functions of the sprouting / stop-condition / reporting / helper modules: none reaches the objective", construct="no-eval-modules"))
    return obs


def objective_function(ctx: Ctx, f: FuncInfo, arg: ast.AST):
    """Resolve the callable handed to an external optimiser to (kind, node, owner FuncInfo | None, return exprs):
    kind in {"method-ref" (bound method such as self._problem.evaluate), "lambda", "def", "unknown"}."""
    defs = local_defs(f)
    e = arg
    hops = 0
    while isinstance(e, ast.Name) and e.id in defs and len(defs[e.id]) == 1 and hops < 4 and e.id not in f.nested:
        e = defs[e.id][0]
        hops += 1
    import copy

    from ..core import _Subst

    def close_over(node, params):
        """Copy of a nested function / lambda with the enclosing function's single-definition locals it captures substituted."""
        own = set(params) | {x.id for x in ast.walk(node) if isinstance(x, ast.Name) and isinstance(x.ctx, ast.Store)}
        cap = {k: v for k, v in defs.items() if k not in own and len(v) == 1 and not isinstance(v[0], (ast.AugAssign, ast.Lambda)) and k not in f.nested}
        return _Subst(cap, 3).visit(copy.deepcopy(node)) if cap else node

    if isinstance(e, ast.Lambda):
        e2 = close_over(e, [a.arg for a in e.args.args])
        return "lambda", e2, None, [e2.body]
    if isinstance(e, ast.Name) and e.id in f.nested:
        nf = f.nested[e.id]
        node2 = close_over(nf.node, nf.params())
        rets = [r.value for r in ast.walk(node2) if isinstance(r, ast.Return) and r.value is not None]
        return "def", node2, nf, rets
    selfn = (f.self_name() if f.parent is None else f.parent.self_name()) or "self"
    if isinstance(e, ast.Attribute) and isinstance(e.value, ast.Name) and e.value.id == selfn and f.cls is not None:
        m = ctx.prog.lookup_method(f.cls, e.attr)
        if m is not None and not m.is_property:
            rets = [r.value for r in ast.walk(m.node) if isinstance(r, ast.Return) and r.value is not None]
            return "def", m.node, m, rets
    if isinstance(e, ast.Attribute):
        return "method-ref", e, None, []
    return "unknown", e, None, []
