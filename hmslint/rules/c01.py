"""C01 — the objective is never evaluated outside the declared box bounds (closure by construction)."""
from __future__ import annotations

import ast
import re

from ..cfg import typestate
from ..core import INCONCLUSIVE, OK, VIOLATION, Ctx, cond_is, canon, is_self_attr, local_defs
from ..model import AnalysisError, body_walk, norm

CLAIM = """Decides box closure by construction, inductively (individuals entering an operator are inside the box): (R01.1) an abstract
interpretation of every variation operator over the lattice CLOSED < UNKNOWN < OPEN shows that every genome array stored into
a population (Population(...) construction, update_genome, returned population) is CLOSED: selections / copies / np.where /
concatenations of closed arrays, convex combinations with a weight drawn from [0, 1), uniform draws between the lower and upper
columns of one bounds array, or the result of apply_bounds / np.clip with the problem's own bounds and a handled method — any
other arithmetic on genomes is OPEN and must pass the repair before it is stored; (R01.2) every genome a deme creates comes from
sample_uniform / sample_normal with the deme's bounds, the sprout seed, cma's ask() of a strategy given `bounds` =
[lower column, upper column] of the level's bounds, a scipy run given bounds=self._bounds, or the affine map lower + u * (upper -
lower) of a unit-cube sample; (R01.3) sample_uniform draws between the two columns, sample_normal returns only after in_bounds,
the conjunction of all(x >= lower) and all(x <= upper); (R01.4) the bounds used everywhere are the problem's: deme._bounds =
config.bounds = problem.bounds, operators get problem.bounds; (R01.5) every apply_bounds call names a method the function
handles, and unknown methods raise; (R01.6) minimize() returns the genome of the tree's best individual. Round-3/4 extensions: the CMA-ES options are read through every reaching definition, `**` unpacking and option-building helpers (an alternative without `bounds`, or with bounds widened by arithmetic, is reported); scipy's truncnorm must be handed standardised clip points; the repair interpreter refines `np.where` branches by their mask."""
NOTE = """Numeric exactness of the repair arithmetic at the faces of the box is property C17 (not decidable statically, not claimed). cma and
scipy honouring the bounds they are given are external summaries."""
TECHNIQUE = "abstract interpretation of the operator code over a box-closure lattice on per-function CFGs + provenance rules for every genome source (custom ast analysis)"
EXPLANATION = """
Subjects of R01.1 are all classes with __call__(population, ...) returning a Population (>= 10). Values are abstracted to
(kind, closure) with kind in {population, array, unit scalar, other}; the transfer functions are those listed in the claim
(DESIGN.md Appendix C). A sink that receives an OPEN array is a witnessed violation (the arithmetic that opened it is printed);
an UNKNOWN array (unrecognised call) is reported as inconclusive, never as a pass.
"""
ASSUMPTIONS = ["numpy.random.uniform(L, U) lies in [L, U); numpy.random.rand() in [0, 1)", "a zeros_like container filled by row stores is completely filled by its loop (only the closure of the stored rows is checked)", "cma keeps ask() inside `bounds`; scipy.optimize.minimize honours `bounds`; qmc samplers return points of [0, 1)^d"]

C, U, O = "CLOSED", "UNKNOWN", "OPEN"
HANDLED = None  # filled from apply_bounds


def _join(*vals):
    vals = [v for v in vals if v is not None]
    if not vals:
        return U
    if O in vals:
        return O
    if U in vals:
        return U
    return C


class Closure:
    """Abstract interpreter for one operator method."""

    def __init__(self, ctx: Ctx, f, handled_methods: set[str]):
        self.ctx = ctx
        self.f = f
        self.selfn = f.self_name()
        self.handled = handled_methods
        self.notes: list[str] = []
        self.cls_facts = self._class_bounds_facts()
        self.pop_cls = ctx.prog.cls("Population")

    # ---- facts about attributes assigned in __init__ from a `bounds` constructor parameter
    def _class_bounds_facts(self):
        facts = {}
        ci = self.f.cls
        if ci is None:
            return facts
        init = self.ctx.prog.lookup_method(ci, "__init__")
        if init is None:
            return facts
        sn = init.self_name()
        for n in body_walk(init.node):
            if isinstance(n, ast.Assign) and len(n.targets) == 1 and is_self_attr(n.targets[0], None, sn):
                v = canon(n.value)
                for p in init.params():
                    if v == f"{p}[:,0]":
                        facts[n.targets[0].attr] = ("lower", p)
                    elif v == f"{p}[:,1]":
                        facts[n.targets[0].attr] = ("upper", p)
                    elif v == p and "bound" in p:
                        facts[n.targets[0].attr] = ("bounds", p)
        return facts

    def is_pop(self, e) -> bool:
        t = self.ctx.res.type_of(e, self.f)
        return t is not None and any(x[0] == "inst" and x[1] == self.pop_cls.qualname for x in ([t] if t[0] != "union" else t[1]))

    def bounds_role(self, e, env):
        """('bounds'|'lower'|'upper', source-key) if e denotes the problem's bounds or one of its columns."""
        t = canon(e)
        if isinstance(e, ast.Name) and e.id in env and isinstance(env[e.id], tuple) and env[e.id][0] == "bnd":
            return env[e.id][1], env[e.id][2]
        if isinstance(e, ast.Attribute) and e.attr == "bounds" and (t.endswith(".problem.bounds") or t.endswith("._problem.bounds")):
            return "bounds", "problem"
        if is_self_attr(e, None, self.selfn) and e.attr in self.cls_facts:
            role, p = self.cls_facts[e.attr]
            return role, "ctor:" + p
        if isinstance(e, ast.Subscript):
            inner = self.bounds_role(e.value, env)
            if inner and inner[0] == "bounds":
                sl = canon(e.slice)
                if sl == "(slice(None,None,None),0)" or sl == ":,0" or canon(e).endswith("[:,0]"):
                    return "lower", inner[1]
                if canon(e).endswith("[:,1]"):
                    return "upper", inner[1]
        return None

    def _role_through_index(self, e, env):
        """bounds role of e, also when e picks some coordinates of a bounds column (`lower[genes]`)"""
        r = self.bounds_role(e, env)
        if r:
            return r
        if isinstance(e, ast.Subscript):
            inner = self.bounds_role(e.value, env)
            if inner and inner[0] in ("lower", "upper"):
                return inner
        return None

    def val(self, e, env):
        """-> (kind, closure) kind in pop/arr/s01/bnd/other"""
        if e is None:
            return ("other", None)
        if isinstance(e, ast.Name):
            if e.id in env:
                return env[e.id]
            if e.id in self.f.params() and self.is_pop(e):
                return ("pop", C)
            return ("other", None)
        br = self.bounds_role(e, env)
        if br:
            return ("bnd", br[0], br[1])
        if isinstance(e, ast.Attribute):
            if e.attr == "genomes":
                b = self.val(e.value, env)
                if b[0] == "pop":
                    return ("arr", b[1])
                if self.is_pop(e.value):
                    return ("arr", C)
            if e.attr in ("fitnesses", "size", "shape", "problem"):
                return ("other", None)
            if self.is_pop(e):
                return ("pop", C)
            return ("other", None)
        if isinstance(e, ast.Subscript):
            b = self.val(e.value, env)
            if b[0] in ("arr", "pop"):
                return b
            if b[0] == "list":  # a list of populations: an element, or a sub-list
                return b if isinstance(e.slice, ast.Slice) else ("pop", C if b[1] == "EMPTY" else b[1])
            return ("other", None)
        if isinstance(e, ast.List):
            vs = [self.val(x, env) for x in e.elts]
            if not vs:
                return ("list", "EMPTY")
            if all(v[0] == "pop" for v in vs):
                return ("list", _join(*[v[1] for v in vs]))
            return ("other", None)
        if isinstance(e, ast.IfExp):
            a, b = self.val(e.body, env), self.val(e.orelse, env)
            if a[0] == b[0] and a[0] in ("arr", "pop"):
                return (a[0], _join(a[1], b[1]))
            return a if a[0] in ("arr", "pop") else b
        if isinstance(e, ast.Call):
            return self.call(e, env)
        if isinstance(e, ast.BinOp):
            return self.binop(e, env)
        if isinstance(e, ast.UnaryOp):
            v = self.val(e.operand, env)
            if v[0] == "arr":
                return ("arr", O)
            return ("other", None)
        if isinstance(e, ast.Constant):
            return ("none", None) if e.value is None else ("other", None)
        return ("other", None)

    def binop(self, e, env):
        if isinstance(e.op, ast.Add):
            # convex combination  a*X + (1-a)*Y
            def term(t):
                if isinstance(t, ast.BinOp) and isinstance(t.op, ast.Mult):
                    for w, x in ((t.left, t.right), (t.right, t.left)):
                        xv = self.val(x, env)
                        if xv[0] == "arr":
                            if isinstance(w, ast.Name) and self.val(w, env)[0] == "s01":
                                return ("w", w.id, xv[1])
                            if isinstance(w, ast.BinOp) and isinstance(w.op, ast.Sub) and isinstance(w.left, ast.Constant) and w.left.value == 1 and isinstance(w.right, ast.Name) and self.val(w.right, env)[0] == "s01":
                                return ("1-w", w.right.id, xv[1])
                return None

            a, b = term(e.left), term(e.right)
            if a and b and a[1] == b[1] and {a[0], b[0]} == {"w", "1-w"}:
                return ("arr", _join(a[2], b[2]))
        if isinstance(e.op, ast.Add):
            # hand-made affine map of a unit draw:  lower + u * W   with u in [0, 1)
            for a_, b_ in ((e.left, e.right), (e.right, e.left)):
                ra = self._role_through_index(a_, env)
                if ra and ra[0] == "lower" and isinstance(b_, ast.BinOp) and isinstance(b_.op, ast.Mult):
                    for u_, w_ in ((b_.left, b_.right), (b_.right, b_.left)):
                        if self.val(u_, env)[0] == "s01" or (isinstance(u_, ast.Call) and norm(u_.func) in ("np.random.rand", "np.random.random", "np.random.random_sample", "np.random.uniform") and (norm(u_.func) != "np.random.uniform" or not [x for x in u_.args[:2]])):
                            if isinstance(w_, ast.BinOp) and isinstance(w_.op, ast.Sub):
                                rl, rr = self._role_through_index(w_.left, env), self._role_through_index(w_.right, env)
                                if rl and rr and rl[0] == "upper" and rr[0] == "lower" and rl[1] == rr[1] == ra[1]:
                                    return ("arr", C)
                            rw = self._role_through_index(w_, env)
                            if rw and rw[0] in ("upper", "lower"):
                                self.notes.append(f"L{e.lineno}: `{norm(e)[:80]}` scales the unit draw by the {rw[0]} bound itself, not by the span upper - lower: the result lies in [lower, lower + {rw[0]}], outside the box whenever that differs from [lower, upper]")
                                return ("arr", O)
        l, r = self.val(e.left, env), self.val(e.right, env)
        if l[0] == "arr" or r[0] == "arr":
            self.notes.append(f"L{e.lineno}: arithmetic on genomes `{norm(e)[:70]}` leaves the box")
            return ("arr", O)
        if l[0] == "bnd" or r[0] == "bnd":
            return ("other", None)
        return ("other", None)

    def call(self, e: ast.Call, env):
        fn = norm(e.func)
        last = fn.split(".")[-1]
        args = e.args
        kw = {k.arg: k.value for k in e.keywords if k.arg}
        if fn in ("np.random.rand", "numpy.random.rand", "np.random.random", "np.random.random_sample") and not args:
            return ("s01", None)
        if fn in ("np.random.uniform", "numpy.random.uniform"):
            lo = args[0] if args else kw.get("low")
            hi = args[1] if len(args) > 1 else kw.get("high")
            lr, hr = (self.bounds_role(lo, env) if lo is not None else None), (self.bounds_role(hi, env) if hi is not None else None)
            if lr and hr:
                if lr[0] == "lower" and hr[0] == "upper" and lr[1] == hr[1]:
                    return ("arr", C)
                self.notes.append(f"L{e.lineno}: uniform draw between `{norm(lo)}` and `{norm(hi)}` is not between the lower and upper column of one bounds array")
                return ("arr", O)
            if lr or hr:
                self.notes.append(f"L{e.lineno}: uniform draw `{norm(e)[:70]}` uses the bounds on one side only")
                return ("arr", O)
            return ("other", None)
        if last == "apply_bounds" and len(args) + len(kw) >= 3:
            E = args[0] if args else kw.get("genomes")
            B = args[1] if len(args) > 1 else kw.get("bounds")
            M = args[2] if len(args) > 2 else kw.get("method")
            br = self.bounds_role(B, env) if B is not None else None
            if not (br and br[0] == "bounds"):
                self.notes.append(f"L{e.lineno}: repair uses `{norm(B)}`, not the problem's bounds")
                return ("arr", O)
            if not (isinstance(M, ast.Constant) and M.value in self.handled):
                self.notes.append(f"L{e.lineno}: repair method `{norm(M)}` is not a literal handled by apply_bounds")
                return ("arr", U)
            return ("arr", C)
        if fn in ("np.clip", "numpy.clip") and len(args) >= 3:
            lr, hr = self.bounds_role(args[1], env), self.bounds_role(args[2], env)
            if lr and hr and lr[0] == "lower" and hr[0] == "upper" and lr[1] == hr[1]:
                return ("arr", C)
            self.notes.append(f"L{e.lineno}: np.clip with `{norm(args[1])}`, `{norm(args[2])}` is not a clip to the problem's box")
            return ("arr", O)
        if fn in ("np.where", "numpy.where") and len(args) == 3:
            a, b = self.val(args[1], env), self.val(args[2], env)
            if a[0] == "arr" or b[0] == "arr":
                return ("arr", _join(a[1] if a[0] == "arr" else None, b[1] if b[0] == "arr" else None) if (a[0] == "arr" and b[0] == "arr") else O)
            return ("other", None)
        if fn in ("np.copy", "numpy.copy", "np.array", "np.asarray", "np.ascontiguousarray") and args:
            v = self.val(args[0], env)
            return v if v[0] == "arr" else ("other", None)
        if fn in ("np.concatenate", "numpy.concatenate", "np.vstack") and args and isinstance(args[0], (ast.Tuple, ast.List)):
            vs = [self.val(x, env) for x in args[0].elts]
            if all(v[0] == "arr" for v in vs):
                return ("arr", _join(*[v[1] for v in vs]))
            return ("other", None)
        if fn in ("np.zeros_like", "np.empty_like", "numpy.zeros_like") and args:
            v = self.val(args[0], env)
            if v[0] == "arr":
                return ("arr", "EMPTY")
            return ("other", None)
        if fn in ("np.repeat", "np.tile", "np.full", "np.ones", "np.zeros", "np.arange", "np.indices", "np.eye"):
            return ("other", None)
        if isinstance(e.func, ast.Attribute) and e.func.attr == "copy" and not args:
            return self.val(e.func.value, env)
        if isinstance(e.func, ast.Attribute) and e.func.attr in ("merge",):
            a = self.val(e.func.value, env)
            b = self.val(args[0], env) if args else ("other", None)
            if a[0] == "pop":
                return ("pop", _join(a[1], b[1] if b[0] == "pop" else (C if args and self.is_pop(args[0]) else U)))
        if isinstance(e.func, ast.Attribute) and e.func.attr in ("topk",):
            return self.val(e.func.value, env)
        # Population(G, F, p)
        ci = self.ctx.prog.resolve_class_expr(e.func, self.f.module)
        if ci is self.pop_cls and args:
            g = self.val(args[0], env)
            return ("pop", g[1] if g[0] == "arr" else U)
        # helper functions of the module returning selections of the population's genomes
        r = self.ctx.prog.resolve_name(fn, self.f.module) if isinstance(e.func, ast.Name) else None
        from ..model import FuncInfo

        if isinstance(r, FuncInfo):
            s = _helper_summary(self.ctx, r)
            if s == "selection-of-arg-genomes" and args:
                a = self.val(args[0], env)
                if a[0] == "pop":
                    return ("arr", a[1])
            return ("other", None)
        # calling another operator object: closed by that operator's own obligation
        t = self.ctx.res.type_of(e, self.f)
        if t is not None and any(x[0] == "inst" and x[1] == self.pop_cls.qualname for x in ([t] if t[0] != "union" else t[1])):
            return ("pop", C)
        return ("other", None)


_HELPER_CACHE = {}


def _helper_summary(ctx, fi):
    if fi.qualname in _HELPER_CACHE:
        return _HELPER_CACHE[fi.qualname]
    res = None
    rets = [r for r in body_walk(fi.node) if isinstance(r, ast.Return)]
    if len(rets) == 1 and isinstance(rets[0].value, ast.Subscript) and fi.params():
        p = fi.params()[0]
        if canon(rets[0].value.value) == f"{p}.genomes":
            res = "selection-of-arg-genomes"
    _HELPER_CACHE[fi.qualname] = res
    return res


def handled_methods(ctx: Ctx) -> set[str]:
    ab = ctx.prog.func("pyhms.demes.single_pop_eas.common", "apply_bounds")
    mp = ab.params()[2]
    out = set()
    for n in body_walk(ab.node):
        if isinstance(n, ast.Compare) and len(n.ops) == 1 and isinstance(n.ops[0], ast.Eq) and norm(n.left) == mp and isinstance(n.comparators[0], ast.Constant):
            out.add(n.comparators[0].value)
    return out


def _operators(ctx: Ctx):
    pop = ctx.prog.cls("Population")
    out = []
    for ci in ctx.prog.classes.values():
        if not ci.module.name.startswith("pyhms.demes.single_pop_eas"):
            continue
        m = ci.methods.get("__call__")
        if m is None or len(m.params()) < 2 or ctx.prog.is_abstract_class(ci):
            continue
        rt = ctx.res.return_type(m)
        if rt is None or not any(x[0] == "inst" and x[1] == pop.qualname for x in ([rt] if rt[0] != "union" else rt[1])):
            continue
        if all(isinstance(s, (ast.Pass, ast.Expr)) for s in m.node.body):
            continue  # protocol stub
        out.append((ci, m))
    return out


def analyse_operator(ctx: Ctx, ci, m, handled):
    interp = Closure(ctx, m, handled)
    cfg = ctx.cfg(m)
    sinks = []  # (node, description, closure)

    def freeze(env):
        return frozenset(env.items())

    def node_fn(n, s):
        env = dict(s)
        a = n.ast
        if n.kind == "forhead" and isinstance(n.stmt, ast.For) and isinstance(n.stmt.target, ast.Name):
            it = interp.val(n.stmt.iter, env)
            if it[0] == "list":
                env[n.stmt.target.id] = ("pop", C if it[1] == "EMPTY" else it[1])
                return [freeze(env)]
        if a is None or n.kind in ("cond", "forhead", "except", "withenter"):
            return [s]
        if isinstance(a, ast.AnnAssign) and a.value is not None and isinstance(a.target, ast.Name):
            env[a.target.id] = interp.val(a.value, env)
        elif isinstance(a, ast.Assign) and len(a.targets) == 1:
            t = a.targets[0]
            if isinstance(t, ast.Name):
                v = interp.val(a.value, env)
                # sink: constructing a population
                _scan_sinks(interp, a.value, env, n, sinks)
                env[t.id] = v
            elif isinstance(t, ast.Subscript) and isinstance(t.value, ast.Name) and t.value.id in env and env[t.value.id][0] == "arr":
                v = interp.val(a.value, env)
                cur = env[t.value.id][1]
                new = v[1] if v[0] == "arr" else U
                env[t.value.id] = ("arr", new if cur == "EMPTY" else _join(cur, new))
            else:
                _scan_sinks(interp, a.value, env, n, sinks)
        elif isinstance(a, ast.Expr) and isinstance(a.value, ast.Call):
            c = a.value
            if isinstance(c.func, ast.Attribute) and c.func.attr == "append" and len(c.args) == 1 and isinstance(c.func.value, ast.Name) and env.get(c.func.value.id, ("other",))[0] == "list":
                v = interp.val(c.args[0], env)
                cur = env[c.func.value.id][1]
                new = v[1] if v[0] == "pop" else U
                env[c.func.value.id] = ("list", new if cur == "EMPTY" else _join(cur, new))
            elif isinstance(c.func, ast.Attribute) and c.func.attr == "update_genome" and c.args:
                g = interp.val(c.args[0], env)
                cl = g[1] if g[0] == "arr" else U
                sinks.append((n, f"update_genome({norm(c.args[0])})", cl))
                if isinstance(c.func.value, ast.Name):
                    env[c.func.value.id] = ("pop", C if cl == "EMPTY" else cl)
            else:
                _scan_sinks(interp, c, env, n, sinks)
        elif isinstance(a, ast.Return) and a.value is not None:
            _scan_sinks(interp, a.value, env, n, sinks)
            v = interp.val(a.value, env)
            if v[0] == "pop":
                sinks.append((n, f"return {norm(a.value)[:50]}", v[1]))
            elif v[0] != "none":
                sinks.append((n, f"return {norm(a.value)[:50]}", U))
        elif isinstance(a, ast.AugAssign) and isinstance(a.target, ast.Name) and a.target.id in env and env[a.target.id][0] == "arr":
            env[a.target.id] = ("arr", O)
            interp.notes.append(f"L{a.lineno}: in-place arithmetic on genomes `{norm(a)[:60]}`")
        return [freeze(env)]

    typestate(cfg, [frozenset()], node_fn)
    return sinks, interp.notes


def _scan_sinks(interp, e, env, n, sinks):
    for c in ast.walk(e):
        if isinstance(c, ast.Call):
            ci = interp.ctx.prog.resolve_class_expr(c.func, interp.f.module)
            if ci is interp.pop_cls and c.args:
                g = interp.val(c.args[0], env)
                sinks.append((n, f"Population({norm(c.args[0])[:40]}, ...)", g[1] if g[0] == "arr" else U))


def r01_1(ctx: Ctx):
    """R01.1 operator closure: every genome array an operator stores or returns is box-closed."""
    handled = handled_methods(ctx)
    ops = _operators(ctx)
    if len(ops) < 10:
        raise AnalysisError(f"only {len(ops)} variation operators found (10 confirmed by hand)")
    obs = []
    for ci, m in ops:
        sinks, notes = analyse_operator(ctx, ci, m, handled)
        if not sinks:
            obs.append(ctx.ob("R01.1", m, m.node, status=INCONCLUSIVE, detail=f"{ci.name}: no population sink found", construct=ci.name))
            continue
        worst = {}
        for n, desc, cl in sinks:
            key = (n.lineno, desc)
            worst[key] = _join(worst.get(key, C) if key in worst else C, C if cl in (C, None, "EMPTY") else cl)
        bad = [(k, v) for k, v in worst.items() if v != C]
        for (line, desc), v in bad:
            st = VIOLATION if v == O else INCONCLUSIVE
            obs.append(ctx.ob("R01.1", m, None, status=st, loc=None, detail=f"{ci.name}: `{desc}` at line {line} receives genomes that are {v}: " + ("they can lie outside the box when stored / evaluated" if v == O else "their box closure cannot be established"), witness=notes, construct=f"{ci.name}:{desc}") if False else _ob_line(ctx, m, line, "R01.1", st, f"{ci.name}: `{desc}` receives genomes that are {v} — " + ("they can lie outside the problem's box when they are stored and evaluated" if v == O else "their box closure cannot be established") + (": " + "; ".join(notes[:3]) if notes else ""), f"{ci.name}:{desc}"))
        if not bad:
            obs.append(ctx.ob("R01.1", m, m.node, detail=f"{ci.name}: {len(worst)} genome sink(s), all box-closed", construct=ci.name))
    return obs


def _ob_line(ctx, m, line, rule, status, detail, construct):
    from ..core import Ob

    return Ob(rule=rule, subject=m.qualname.replace("pyhms.", "", 1), loc=f"{m.module.relpath}:{line}", status=status, detail=detail, construct=construct)


def r01_2(ctx: Ctx):
    """R01.2 every genome a deme creates comes from a box-respecting source configured with the deme's own bounds."""
    obs = []
    n_sites = 0
    for ci in ctx.concrete_demes():
        for f in ctx.prog.functions_in(ci):
            sn = (f.self_name() if f.parent is None else f.parent.self_name()) or "self"
            defs = local_defs(f)
            for c in body_walk(f.node):
                if not isinstance(c, ast.Call):
                    continue
                fn = norm(c.func)
                if fn.endswith("create_population"):
                    n_sites += 1
                    ini = next((k.value for k in c.keywords if k.arg == "initialize"), c.args[2] if len(c.args) > 2 else None)
                    st, why = _initializer_ok(ini, sn, defs)
                    obs.append(ctx.ob("R01.2", f, c, status=st, detail=f"{ci.name}: initial genomes from {why}" if st == OK else f"{ci.name}: {why}"))
                elif ctx.prog.resolve_class_expr(c.func, f.module) is ctx.prog.cls("Individual") and c.args:
                    n_sites += 1
                    g = c.args[0]
                    ok, why = _genome_source_ok(ctx, ci, f, g, sn, defs)
                    obs.append(ctx.ob("R01.2", f, c, status=OK if ok else VIOLATION if why.startswith("!") else INCONCLUSIVE, detail=f"{ci.name}: genome from {why}" if ok else f"{ci.name}: {why.lstrip('!')}"))
    if n_sites < 12:
        raise AnalysisError(f"only {n_sites} genome creation sites found in deme classes (>= 14 confirmed by hand)")
    # external optimisers get the bounds
    cma_inits = 0
    for ci in ctx.concrete_demes():
        init = ci.methods.get("__init__")
        if init is None:
            continue
        sn = init.self_name()
        ctor_calls = [cs.node for cs in ctx.res.callsites(init) if cs.external == "cma.CMAEvolutionStrategy" and isinstance(cs.node, ast.Call)]
        if ctor_calls:
            cma_inits += 1
            ok, why = _cma_bounds_ok(ctx, init, ctor_calls)
            obs.append(ctx.ob("R01.2", init, ctor_calls[0], status=OK if ok else INCONCLUSIVE if ok is None else VIOLATION, detail=f"{ci.name}: every CMA-ES strategy is given bounds = [lower column, upper column] of the level's bounds" if ok else f"{ci.name}: {why}", construct=f"{ci.name}:cma-bounds"))
        for f in ctx.prog.functions_in(ci):
            for cs in ctx.res.callsites(f):
                if cs.external == "scipy.optimize.minimize" and isinstance(cs.node, ast.Call):
                    from ..core import effective_keywords

                    ekw = effective_keywords(cs.node, local_defs(f))
                    b = ekw.get("bounds")
                    if b is None and any(k.arg is None for k in cs.node.keywords) and "bounds" not in ekw:
                        obs.append(ctx.ob("R01.2", f, cs.node, status=INCONCLUSIVE, detail=f"{ci.name}: scipy is called with **kwargs the analyser cannot expand", construct=f"{ci.name}:scipy-bounds"))
                        continue
                    fsn = (f.self_name() if f.parent is None else f.parent.self_name()) or "self"
                    ok = b is not None and (is_self_attr(b, "_bounds", fsn) or norm(b) in (f"{fsn}._config.bounds", f"{fsn}._problem.bounds", f"{fsn}._config.problem.bounds"))
                    none_arm = b is not None and any(isinstance(x, ast.IfExp) and any(isinstance(a_, ast.Constant) and a_.value is None for a_ in (x.body, x.orelse)) for x in ast.walk(b))
                    if not ok and b is not None and not none_arm and not (isinstance(b, ast.Constant) or isinstance(b, (ast.BinOp, ast.List, ast.Tuple))):
                        bs_ = _box_status(b, fsn, local_defs(f))
                        if bs_ not in ("modified", "none"):
                            obs.append(ctx.ob("R01.2", f, cs.node, status=INCONCLUSIVE, detail=f"{ci.name}: scipy.optimize.minimize is called with bounds={norm(b)}: not recognised as the level's box", construct=f"{ci.name}:scipy-bounds"))
                            continue
                    obs.append(ctx.ob("R01.2", f, cs.node, status=OK if ok else VIOLATION, detail=f"{ci.name}: scipy is given bounds=self._bounds" if ok else f"{ci.name}: scipy.optimize.minimize is called with bounds={norm(b) if b is not None else '<missing>'}: the local search leaves the box", construct=f"{ci.name}:scipy-bounds"))
                    x0 = cs.node.args[1] if len(cs.node.args) > 1 else ekw.get("x0")
                    d = local_defs(f)
                    xr = x0
                    while isinstance(xr, ast.Name) and xr.id in d and len(d[xr.id]) == 1:
                        xr = d[xr.id][0]
                    okx = xr is not None and norm(xr).endswith("_sprout_seed.genome")
                    st_x = OK if okx else VIOLATION
                    if not okx and isinstance(xr, ast.Name) and xr.id in f.params():
                        # the start point is a parameter of a helper: look at what its callers in the class pass
                        k = f.params().index(xr.id) - (1 if f.self_name() else 0)
                        passed = []
                        for g in ctx.prog.functions_in(ci):
                            for c2 in body_walk(g.node):
                                if isinstance(c2, ast.Call) and isinstance(c2.func, ast.Attribute) and c2.func.attr == f.name and isinstance(c2.func.value, ast.Name):
                                    a_ = c2.args[k] if 0 <= k < len(c2.args) else next((kw.value for kw in c2.keywords if kw.arg == xr.id), None)
                                    passed.append(canon(a_, local_defs(g)) if a_ is not None else "?")
                        st_x = OK if passed and all(t.endswith("_sprout_seed.genome") for t in passed) else INCONCLUSIVE
                        okx = st_x == OK
                    elif not okx and not (isinstance(xr, (ast.Constant, ast.Call, ast.BinOp)) or (xr is not None and ("bounds" in norm(xr) or "zeros" in norm(xr)))):
                        st_x = INCONCLUSIVE
                    obs.append(ctx.ob("R01.2", f, cs.node, status=st_x, detail=f"{ci.name}: the local search starts at the sprout seed" if okx else f"{ci.name}: the local search starts at `{norm(xr) if xr is not None else '?'}`, not at the (box-closed) sprout seed", construct=f"{ci.name}:scipy-x0"))
    # external helpers that evaluate a callable of ours at points of their own choosing, without bounds (table, DESIGN §9)
    UNBOUNDED_PROBES = ("scipy.optimize.approx_fprime", "scipy.optimize.check_grad", "scipy.misc.derivative", "scipy.optimize.line_search", "scipy.optimize.fmin", "scipy.optimize.fmin_bfgs", "scipy.optimize.fmin_cg", "scipy.optimize.fmin_powell")
    for ci in ctx.concrete_demes():
        for f in ctx.prog.functions_in(ci):
            for cs in ctx.res.callsites(f):
                if cs.external in UNBOUNDED_PROBES and isinstance(cs.node, ast.Call):
                    obs.append(ctx.ob("R01.2", f, cs.node, status=VIOLATION, detail=f"{ci.name}: `{norm(cs.node)[:60]}` ({cs.external}) evaluates the objective at points it chooses itself (e.g. x + step) without any bounds: probes next to an upper face leave the box", construct=f"{ci.name}:{cs.external}"))
    if cma_inits == 0:
        raise AnalysisError("no deme constructing a CMA-ES strategy found")
    return obs


_BOX_RE = re.compile(r"^[A-Za-z_][A-Za-z_0-9.]*\.(_bounds|bounds)$")


def _box_status(b, sn, defs) -> str:
    """'box' = the level's / problem's own bounds array untouched, 'modified' = an expression computed from bounds
    (arithmetic, slicing, a call), 'none' = missing / None, 'unknown' otherwise."""
    if b is None or (isinstance(b, ast.Constant) and b.value is None):
        return "none"
    t = canon(b, defs)
    if _BOX_RE.match(t):
        return "box"
    if "bounds" in t and any(isinstance(x, (ast.BinOp, ast.Call, ast.Subscript, ast.UnaryOp)) for x in ast.walk(b if not isinstance(b, ast.Name) else ast.parse(t, mode="eval").body)):
        return "modified"
    return "unknown"


def _initializer_ok(ini, sn, defs, depth=0):
    """-> (status, text).  The initialiser may be bound to a local first or chosen by a conditional expression
    (every arm must qualify)."""
    r = ini
    hops = 0
    while isinstance(r, ast.Name) and r.id in defs and len(defs[r.id]) == 1 and hops < 4 and not isinstance(defs[r.id][0], ast.AugAssign):
        r = defs[r.id][0]
        hops += 1
    if isinstance(r, ast.IfExp) and depth < 3:
        a = _initializer_ok(r.body, sn, defs, depth + 1)
        b = _initializer_ok(r.orelse, sn, defs, depth + 1)
        for st in (VIOLATION, INCONCLUSIVE):
            for x in (a, b):
                if x[0] == st:
                    return x
        return OK, f"{a[1]} / {b[1]}"
    if not isinstance(r, ast.Call):
        return INCONCLUSIVE, f"cannot tell what the population initialiser `{norm(ini) if ini is not None else '?'}` is"
    fn = norm(r.func)
    b = next((k.value for k in r.keywords if k.arg == "bounds"), None)
    if fn == "sample_uniform":
        b = b if b is not None else (r.args[0] if r.args else None)
        bs = _box_status(b, sn, defs)
        if bs == "box":
            return OK, f"sample_uniform(bounds={norm(b)})"
        if bs in ("none", "modified"):
            return VIOLATION, f"sample_uniform is given `{norm(b) if b is not None else 'no bounds'}` instead of the deme's bounds"
        return INCONCLUSIVE, f"cannot tell whether `{norm(b)}` given to sample_uniform is the deme's box"
    if fn == "sample_normal":
        b = b if b is not None else (r.args[2] if len(r.args) > 2 else None)
        bs = _box_status(b, sn, defs)
        if bs == "none":
            return VIOLATION, "sample_normal is called without bounds: the normal sample around the seed is not restricted to the box"
        if bs == "box":
            return OK, f"sample_normal(seed, std, bounds={norm(b)}) (rejection sampling)"
        if bs == "modified":
            return VIOLATION, f"sample_normal is given `{norm(b)}` instead of the deme's bounds"
        return INCONCLUSIVE, f"cannot tell whether `{norm(b)}` given to sample_normal is the deme's box"
    if fn in ("np.random.normal", "np.random.uniform", "np.random.standard_normal", "np.random.randn") or isinstance(r.func, ast.Lambda):
        return VIOLATION, f"population initialiser `{fn}` is not restricted to the box"
    return INCONCLUSIVE, f"population initialiser `{fn}` is not sample_uniform / sample_normal: cannot tell whether it respects the box"


def _genome_source_ok(ctx, ci, f, g, sn, defs):
    r = g
    hops = 0
    while isinstance(r, ast.Name) and r.id in defs and len(defs[r.id]) == 1 and hops < 4:
        r = defs[r.id][0]
        hops += 1
    t = norm(r)
    if t.endswith("sprout_seed.genome"):
        return True, "the sprout seed"
    # comprehension variable over ask() or over an affine-scaled sample
    if isinstance(g, ast.Name):
        for n in body_walk(f.node):
            if isinstance(n, ast.comprehension) and isinstance(n.target, ast.Name) and n.target.id == g.id:
                it = n.iter
                if isinstance(it, ast.Call) and isinstance(it.func, ast.Attribute) and it.func.attr == "ask" and is_self_attr(it.func.value, None, sn):
                    return True, "cma ask() (strategy bounds checked separately)"
                src = it
                while isinstance(src, ast.Name) and src.id in defs and len(defs[src.id]) == 1:
                    src = defs[src.id][0]
                ok, why = _affine_ok(ctx, ci, f, src, sn, defs)
                return ok, why
    # an affine expression over a comprehension variable that runs over the rows of a unit-cube sample
    if isinstance(g, ast.BinOp):
        gnames = {x.id for x in ast.walk(g) if isinstance(x, ast.Name)}
        for n in body_walk(f.node):
            if isinstance(n, ast.comprehension) and isinstance(n.target, ast.Name) and n.target.id in gnames:
                it = n.iter
                while isinstance(it, ast.Name) and it.id in defs and len(defs[it.id]) == 1:
                    it = defs[it.id][0]
                if isinstance(it, ast.Call) and isinstance(it.func, ast.Attribute) and it.func.attr == "random" and is_self_attr(it.func.value, None, sn):
                    return _affine_ok(ctx, ci, f, g, sn, defs, unit_names=(n.target.id,))
    # copies of arrays handed over by scipy (bounds passed to scipy are checked separately)
    # cma's distribution mean lives in genotype space, before the boundary transform: not box-closed (table, DESIGN §9)
    inner = r.args[0] if isinstance(r, ast.Call) and norm(r.func) in ("np.copy", "np.array", "np.asarray") and r.args else r
    if isinstance(inner, ast.Attribute) and inner.attr in ("mean", "xmean") and isinstance(inner.value, ast.Attribute) and "cma" in inner.value.attr.lower():
        return False, f"!genome `{t[:60]}` is CMA-ES's distribution mean, which is kept in genotype space and can lie outside the box (only ask() / result.xfavorite are repaired)"
    own_params = [p_ for p_ in f.params() if p_ != sn]
    if isinstance(r, ast.Call) and norm(r.func) in ("np.copy", "np.array") and r.args:
        root = r.args[0]
        while isinstance(root, (ast.Attribute, ast.Subscript)):
            root = root.value
        if isinstance(root, ast.Name) and root.id in own_params:
            return True, "scipy's iterate (bounded run)"
    if isinstance(r, ast.Attribute) and isinstance(r.value, ast.Name) and r.value.id in own_params and r.attr == "x":
        return True, "scipy's iterate (bounded run)"
    return False, f"genome `{t[:60]}` has no recognised box-respecting source"


def _affine_ok(ctx, ci, f, e, sn, defs, unit_names=()):
    """lower + sample * (upper - lower) with sample from a qmc sampler's random() (whole matrix, or row by row:
    `[lower + u * (upper - lower) for u in sampler.random(n)]`)."""
    def res(x):
        hops = 0
        while isinstance(x, ast.Name) and x.id in defs and len(defs[x.id]) == 1 and x.id not in unit_names and hops < 5:
            x = defs[x.id][0]
            hops += 1
        return x

    if isinstance(e, ast.ListComp) and len(e.generators) == 1 and not e.generators[0].ifs and isinstance(e.generators[0].target, ast.Name):
        it = res(e.generators[0].iter)
        if isinstance(it, ast.Call) and isinstance(it.func, ast.Attribute) and it.func.attr == "random" and is_self_attr(it.func.value, None, sn):
            return _affine_ok(ctx, ci, f, e.elt, sn, defs, unit_names=(e.generators[0].target.id,))

    def col(x):
        x = res(x)
        if is_self_attr(x, None, sn):
            init = ci.methods.get("__init__")
            if init:
                idefs_ = local_defs(init)
                for n in body_walk(init.node):
                    if isinstance(n, ast.Assign) and any(is_self_attr(t, x.attr, init.self_name()) for t in n.targets):
                        v = canon(n.value, idefs_)
                        # the bounds may pass through an array conversion first: np.asarray(cfg.bounds)[:, 0]
                        v = re.sub(r"^np\.(asarray|array|asanyarray)\(([A-Za-z_0-9.]+\.bounds)(,dtype=[a-z0-9.]+)?\)", r"\2", v)
                        if v.endswith(".bounds[:,0]"):
                            return "lower"
                        if v.endswith(".bounds[:,1]"):
                            return "upper"
                        if re.search(r"\.bounds\)\[:,[01]\]$", v):
                            return "unknown-column"  # the level's bounds handed through a helper this rule does not read
        v = canon(x)
        if v.endswith("bounds[:,0]"):
            return "lower"
        if v.endswith("bounds[:,1]"):
            return "upper"
        return None

    def is_unit_sample(x):
        if isinstance(x, ast.Name) and x.id in unit_names:
            return True
        r = x
        while isinstance(r, ast.Name) and r.id in defs and len(defs[r.id]) == 1:
            r = defs[r.id][0]
        return isinstance(r, ast.Call) and isinstance(r.func, ast.Attribute) and r.func.attr == "random" and is_self_attr(r.func.value, None, sn)

    if isinstance(e, ast.Call) and norm(e.func).endswith("qmc.scale") and len(e.args) == 3:
        if is_unit_sample(e.args[0]) and col(e.args[1]) == "lower" and col(e.args[2]) == "upper":
            return True, "qmc.scale(unit sample, lower, upper)"
        return False, f"!`{norm(e)[:70]}` does not scale a unit sample between the lower and upper bounds"
    if isinstance(e, ast.BinOp) and isinstance(e.op, ast.Add):
        for a, b in ((e.left, e.right), (e.right, e.left)):
            b = res(b)
            if col(a) == "lower" and isinstance(b, ast.BinOp) and isinstance(b.op, ast.Mult):
                for s, w in ((b.left, b.right), (b.right, b.left)):
                    w = res(w)
                    if is_self_attr(w, None, sn):
                        # a width computed once in the constructor and kept (`self._side_lengths = self.upper - self.lower`)
                        stores = [(m_, y) for m_ in ci.methods.values() for y in body_walk(m_.node) if isinstance(y, (ast.Assign, ast.AugAssign, ast.AnnAssign)) and any(is_self_attr(t_, w.attr, m_.self_name()) for t_ in (y.targets if isinstance(y, ast.Assign) else [y.target]))]
                        if len(stores) == 1 and stores[0][0].name == "__init__" and isinstance(stores[0][1], (ast.Assign, ast.AnnAssign)) and stores[0][1].value is not None:
                            w = stores[0][1].value
                    if is_unit_sample(s) and isinstance(w, ast.BinOp) and isinstance(w.op, ast.Sub) and col(w.left) == "upper" and col(w.right) == "lower":
                        return True, "lower + unit sample * (upper - lower)"
        if any(col(x_) == "unknown-column" for x_ in ast.walk(e) if isinstance(x_, (ast.Attribute, ast.Name))):
            return False, f"`{norm(e)[:80]}`: the bound columns it uses come out of a helper applied to the level's bounds (not read by this rule)"
        return False, f"!`{norm(e)[:80]}` is not the affine map lower + u * (upper - lower) of a unit-cube sample: samples can land outside the box"
    return False, f"genomes `{norm(e)[:60]}` are not an affine image of a unit-cube sample"


def _bounds_pair_ok(b, defs):
    """(True | False | None, why) for one `bounds` value handed to CMA-ES: [lower column, upper column] of the level's bounds."""
    r0 = b
    while isinstance(r0, ast.Name) and r0.id in defs and len(defs[r0.id]) == 1:
        r0 = defs[r0.id][0]
    if not (isinstance(r0, (ast.List, ast.Tuple)) and len(r0.elts) == 2):
        return (False if isinstance(r0, (ast.Constant, ast.Attribute)) else None), f"CMA-ES bounds `{norm(b)}` are not [lower, upper]"
    cols = []
    for el in r0.elts:
        r = el
        while isinstance(r, ast.Name) and r.id in defs and len(defs[r.id]) == 1:
            r = defs[r.id][0]
        while isinstance(r, ast.Call) and norm(r.func) in ("list", "np.array", "np.asarray", "tuple") and len(r.args) == 1:
            r = r.args[0]
        t = canon(r)
        if "[0]" in t and "bounds" in t and "[1]" not in t or t.endswith("bounds[:,0]"):
            cols.append("lower")
        elif "[1]" in t and "bounds" in t or t.endswith("bounds[:,1]"):
            cols.append("upper")
        else:
            cols.append("?" + t[:30])
    if cols != ["lower", "upper"]:
        definite = sorted(cols) == ["lower", "upper"] or cols[0] == cols[1] or any(isinstance(x, ast.BinOp) for x in ast.walk(r0)) or any(isinstance(el, ast.Constant) for el in r0.elts)
        return (False if definite else None), f"CMA-ES bounds are [{cols[0]}, {cols[1]}] instead of [lower column, upper column] of the level's bounds"
    return True, ""


def _cma_bounds_ok(ctx, init, ctor_calls):
    defs = local_defs(init)
    for c in ctor_calls:
        opts = next((k.value for k in c.keywords if k.arg == "inopts"), c.args[2] if len(c.args) > 2 else None)
        if opts is None:
            return False, "a CMA-ES strategy is constructed without options (no bounds)"
        from .common import dict_alternatives

        alts = dict_alternatives(ctx, init, opts)
        if alts is None:
            return None, f"cannot resolve the options `{norm(opts)}` of a CMA-ES strategy"
        missing = [a for a in alts if "bounds" not in a]
        maybe = [a for a in alts if isinstance(a.get("bounds"), tuple)]
        if missing:
            return False, "on some path the CMA-ES options have no `bounds` entry: CMA-ES samples outside the box"
        if maybe:
            return None, "the `bounds` entry of the CMA-ES options is set under a condition this rule does not evaluate"
        bs = {canon(a["bounds"]): a["bounds"] for a in alts}
        b = list(bs.values())[0]
        for b in bs.values():
            ok_b, why_b = _bounds_pair_ok(b, defs)
            if not ok_b:
                return ok_b, why_b
        # the options object must not lose the key later
        for n in body_walk(init.node):
            if isinstance(n, ast.Call) and isinstance(n.func, ast.Attribute) and n.func.attr in ("pop", "clear") and isinstance(opts, ast.Name) and norm(n.func.value) == opts.id:
                return False, f"`{norm(n)}` removes entries from the CMA-ES options"
            if isinstance(n, ast.Delete):
                return False, "entries are deleted from the CMA-ES options"
    return True, ""


def _face_atoms(e: ast.AST, xp: str, bp: str) -> ast.AST:
    """Replace the recognisable box-face tests in a boolean expression by named atoms (LOWER_OK, UPPER_OK, BOUNDS_NONE, WRONG_FACE)."""
    lo, hi = f"{bp}[:,0]", f"{bp}[:,1]"

    def face(cmp):
        if not (isinstance(cmp, ast.Compare) and len(cmp.ops) == 1):
            return None
        l, r, op = canon(cmp.left), canon(cmp.comparators[0]), type(cmp.ops[0])
        if op in (ast.Lt, ast.LtE):
            l, r, op = r, l, {ast.Lt: ast.Gt, ast.LtE: ast.GtE}[op]
        if op not in (ast.Gt, ast.GtE):
            return None
        if l == xp and r == lo:
            return "LOWER_OK"
        if l == hi and r == xp:
            return "UPPER_OK"
        if (l == xp and r == hi) or (l == lo and r == xp) or (l == hi and r == lo):
            return "WRONG_FACE"
        return None

    class T(ast.NodeTransformer):
        def visit_Call(self, node):
            fn = norm(node.func)
            if fn in ("np.any", "any", "numpy.any") and len(node.args) == 1 and face(node.args[0]):
                return ast.Name(id="SOME_" + face(node.args[0]), ctx=ast.Load())
            if fn in ("np.all", "all", "numpy.all", "bool") and len(node.args) == 1:
                a = node.args[0]
                if fn == "bool":
                    return self.visit(a)
                f1 = face(a)
                if f1:
                    return ast.Name(id=f1, ctx=ast.Load())
                parts = None
                if isinstance(a, ast.BinOp) and isinstance(a.op, ast.BitAnd):
                    parts = [a.left, a.right]
                elif isinstance(a, ast.Call) and norm(a.func) in ("np.logical_and",) and len(a.args) == 2:
                    parts = list(a.args)
                if parts and all(face(p) for p in parts):
                    return ast.BoolOp(op=ast.And(), values=[ast.Name(id=face(p), ctx=ast.Load()) for p in parts])
            if isinstance(node.func, ast.Attribute) and node.func.attr == "all" and not node.args:
                f1 = face(node.func.value)
                if f1:
                    return ast.Name(id=f1, ctx=ast.Load())
            return node

        def visit_Compare(self, node):
            if len(node.ops) == 1 and isinstance(node.ops[0], (ast.Is, ast.IsNot, ast.Eq, ast.NotEq)) and canon(node.left) == bp and canon(node.comparators[0]) == "None":
                nm = ast.Name(id="BOUNDS_NONE", ctx=ast.Load())
                return nm if isinstance(node.ops[0], (ast.Is, ast.Eq)) else ast.UnaryOp(op=ast.Not(), operand=nm)
            return node

    import copy

    return T().visit(copy.deepcopy(e))


def r01_3(ctx: Ctx):
    """R01.3 initialisers: uniform between the two columns; normal sampling loops until in_bounds = all(x >= lower) and all(x <= upper)."""
    obs = []
    su = ctx.prog.func("pyhms.initializers", "sample_uniform")
    bp = su.params()[0]
    calls = [(f, c) for f in [su] + list(su.nested.values()) for c in body_walk(f.node) if isinstance(c, ast.Call) and norm(c.func).endswith("random.uniform")]
    st_u = INCONCLUSIVE
    if len(calls) == 1:
        uf, uc = calls[0]
        udefs = local_defs(uf)
        lo = uc.args[0] if uc.args else next((k.value for k in uc.keywords if k.arg == "low"), None)
        hi = uc.args[1] if len(uc.args) > 1 else next((k.value for k in uc.keywords if k.arg == "high"), None)
        lt, ht = (canon(lo, udefs) if lo is not None else "?"), (canon(hi, udefs) if hi is not None else "?")
        if lt == f"{bp}[:,0]" and ht == f"{bp}[:,1]":
            st_u = OK
        elif (lt, ht) == (f"{bp}[:,1]", f"{bp}[:,0]") or (lo is None or hi is None) or (bp in lt and bp in ht and (isinstance(lo, (ast.BinOp, ast.Constant)) or isinstance(hi, (ast.BinOp, ast.Constant)))) or isinstance(lo, ast.Constant) or isinstance(hi, ast.Constant):
            st_u = VIOLATION
    calls = [c for _, c in calls]
    ok = st_u == OK
    obs.append(ctx.ob("R01.3", su, calls[0] if calls else su.node, status=st_u, detail="uniform draw between the lower and upper column of the bounds" if ok else f"sample_uniform draws `{norm(calls[0])[:80] if calls else '?'}`: not between bounds[:, 0] and bounds[:, 1]", construct="sample_uniform"))
    sn = ctx.prog.func("pyhms.initializers", "sample_normal")
    bp = "bounds"
    ib = sn.nested.get("in_bounds")
    cr = sn.nested.get("create")
    if cr is None:
        raise AnalysisError("sample_normal.create vanished")
    from ..core import _bool_atoms, bool_equiv
    from ..normalize import _expr_of_block

    if ib is not None:
        xp = ib.params()[0]
        rets = [r for r in body_walk(ib.node) if isinstance(r, ast.Return)]
        body = [x for x in ib.node.body if not (isinstance(x, ast.Expr) and isinstance(x.value, ast.Constant))]
        E = _expr_of_block(body, ast.Constant(value=None), allow_dup=True)
        st_ib = INCONCLUSIVE
        why = "cannot reduce in_bounds to one boolean expression"
        if E is not None:
            E = _face_atoms(E, xp, bp)
            want = ast.parse("BOUNDS_NONE or (LOWER_OK and UPPER_OK)", mode="eval").body
            atoms = set()
            _bool_atoms(E, atoms)
            imp = bool_equiv(ast.BoolOp(op=ast.Or(), values=[ast.UnaryOp(op=ast.Not(), operand=E), want]), ast.Constant(value=True))
            if imp is True:
                st_ib = OK
            elif imp is False and atoms <= {"BOUNDS_NONE", "LOWER_OK", "UPPER_OK", "WRONG_FACE", "SOME_LOWER_OK", "SOME_UPPER_OK", "SOME_WRONG_FACE"}:
                st_ib, why = VIOLATION, f"in_bounds accepts points outside the box: `{norm(rets[-1].value)[:90] if rets else '?'}` does not imply all(x >= lower) and all(x <= upper)"
            else:
                why = f"cannot decide whether `{norm(rets[-1].value)[:90] if rets else '?'}` implies all(x >= lower) and all(x <= upper)"
        obs.append(ctx.ob("R01.3", ib, rets[-1] if rets else ib.node, status=st_ib, detail="in_bounds implies all(x >= lower) and all(x <= upper)" if st_ib == OK else f"sample_normal: {why}", construct="in_bounds"))
    # create(): every returned point has passed the box test since it was last assigned (typestate over create's CFG; the
    # facts are per name: accepted by in_bounds(), or lower face / upper face tested directly, or bounds known to be None)
    from ..cfg import typestate

    cfg = ctx.cfg(cr)
    bad, unknown_ret, n_ret = [], [], 0
    odd_tests = []

    def assigned(n):
        out = set()
        if n.ast is not None and n.kind in ("stmt", "forhead", "withenter"):
            for x in ast.walk(n.ast):
                if isinstance(x, ast.Name) and isinstance(x.ctx, ast.Store):
                    out.add(x.id)
        return out

    def passed(stt, v):
        return ("IB", v) in stt or ("NONE", bp) in stt or (("LOWER_OK", v) in stt and ("UPPER_OK", v) in stt)

    def node_fn(n, stt):
        nonlocal n_ret
        if n.kind == "return" and n.ast is not None:
            v = n.ast.value if isinstance(n.ast, ast.Return) else n.ast
            n_ret += 1
            if isinstance(v, ast.Name):
                if not passed(stt, v.id):
                    bad.append((n, stt))
            elif v is not None:
                unknown_ret.append(n)
        a = assigned(n)
        return [frozenset(f for f in stt if f[1] not in a)] if a else [stt]

    def edge_fn(n, lab, stt):
        if n.kind != "cond" or lab not in (True, False) or n.ast is None:
            return stt
        e = n.ast
        if ib is not None and isinstance(e, ast.Call) and norm(e.func) == "in_bounds" and len(e.args) == 1 and isinstance(e.args[0], ast.Name):
            return frozenset(stt | {("IB", e.args[0].id)}) if lab else stt
        add = set()
        for v in sorted({x.id for x in ast.walk(e) if isinstance(x, ast.Name)} - {bp, "np", "numpy", "all", "any", "bool"}) or [""]:
            t = _face_atoms(e, v, bp)
            neg = False
            while isinstance(t, ast.UnaryOp) and isinstance(t.op, ast.Not):
                t, neg = t.operand, not neg
            truth = lab != neg
            names = [t.id] if isinstance(t, ast.Name) else [x.id for x in t.values if isinstance(x, ast.Name)] if isinstance(t, ast.BoolOp) and isinstance(t.op, ast.And) and all(isinstance(x, ast.Name) for x in t.values) else []
            for nm in names:
                if nm == "BOUNDS_NONE" and truth and isinstance(t, ast.Name):
                    add.add(("NONE", bp))
                elif nm in ("LOWER_OK", "UPPER_OK") and truth:
                    add.add((nm, v))
            known = {"BOUNDS_NONE", "LOWER_OK", "UPPER_OK", "WRONG_FACE", "SOME_LOWER_OK", "SOME_UPPER_OK", "SOME_WRONG_FACE"}
            seen_atoms = set()
            _bool_atoms(t, seen_atoms)
            if v and not (seen_atoms and seen_atoms <= known):
                odd_tests.append((n, v))
        return frozenset(stt | add) if add else stt

    typestate(cfg, [frozenset()], node_fn, edge_fn)
    ret_names = {(n.ast.value if isinstance(n.ast, ast.Return) else n.ast).id for n, _ in bad}
    # a draw from a distribution truncated to the box instead of a rejection loop: scipy's truncnorm takes its clip points in
    # STANDARD units, (bound - loc) / scale; handed (bound - loc) the support is loc + (bound - loc) * scale
    tn_status = None
    sdefs = dict(local_defs(sn))
    sdefs.update(local_defs(cr))
    for n in list(unknown_ret):
        v = n.ast.value if isinstance(n.ast, ast.Return) else n.ast
        d = ctx.prog.dotted(v.func, cr.module) if isinstance(v, ast.Call) and isinstance(v.func, (ast.Name, ast.Attribute)) else None
        if d in ("scipy.stats.truncnorm.rvs", "scipy.stats.truncnorm"):
            kw = {k.arg: k.value for k in v.keywords if k.arg}
            a_, b_ = (v.args + [None, None])[:2]
            a_, b_ = a_ or kw.get("a"), b_ or kw.get("b")
            loc, scale = kw.get("loc", v.args[2] if len(v.args) > 2 else None), kw.get("scale", v.args[3] if len(v.args) > 3 else None)
            if a_ is None or b_ is None or loc is None:
                continue
            lt, sc = canon(loc, sdefs), (canon(scale, sdefs) if scale is not None else "1")
            at, bt = canon(a_, sdefs), canon(b_, sdefs)
            # np.asarray(center, dtype=float) etc. denote the centre itself
            def strip(t):
                prev = None
                while prev != t:
                    prev = t
                    t = re.sub(r"np\.(asarray|array)\((\w+)(,dtype=\w+)?\)", r"\2", t)
                return t

            at, bt, lt = strip(at), strip(bt), strip(lt)
            std_ok = at in (f"({bp}[:,0]-{lt})/{sc}",) and bt in (f"({bp}[:,1]-{lt})/{sc}",)
            raw = at == f"{bp}[:,0]-{lt}" and bt == f"{bp}[:,1]-{lt}"
            if std_ok or (raw and sc == "1"):
                tn_status = (OK, "")
                unknown_ret.remove(n)
            elif raw:
                tn_status = (VIOLATION, f"sample_normal draws `{norm(v)[:80]}` with clip points `{norm(a_)}` / `{norm(b_)}` that are not divided by the scale `{norm(scale)}`: truncnorm's support is loc + clip * scale, so for a standard deviation above 1 the sampled point lies outside the box")
    if tn_status is not None and tn_status[0] == VIOLATION:
        obs.append(ctx.ob("R01.3", cr, cr.node, status=VIOLATION, detail=tn_status[1], construct="rejection-loop"))
        return obs
    if bad and not any(v in ret_names for _, v in odd_tests):
        st_l = VIOLATION
    elif bad or unknown_ret or n_ret == 0:
        st_l = INCONCLUSIVE
    else:
        st_l = OK
    obs.append(ctx.ob("R01.3", cr, bad[0][0].stmt if bad else cr.node, status=st_l, detail="create() returns a point only after in_bounds accepted it" if st_l == OK else "sample_normal.create can return a point that failed (or was never put to) the in_bounds test" if st_l == VIOLATION else "cannot follow what sample_normal.create returns", construct="rejection-loop"))
    return obs


def r01_4(ctx: Ctx):
    """R01.4 one bounds array everywhere: deme._bounds = config.bounds = problem.bounds; operators are built with problem.bounds."""
    obs = []
    init = ctx.prog.own_method("AbstractDeme", "__init__")
    st = [n for n in body_walk(init.node) if isinstance(n, (ast.Assign, ast.AnnAssign)) and any(is_self_attr(t, "_bounds", init.self_name()) for t in (n.targets if isinstance(n, ast.Assign) else [n.target]))]
    idefs = local_defs(init)
    if not st and ctx.prog.lookup_method(ctx.prog.cls("AbstractDeme"), "_bounds") is None:
        # the field may have been renamed: the attribute that receives the level configuration's bounds
        renamed = [n for n in body_walk(init.node) if isinstance(n, (ast.Assign, ast.AnnAssign)) and getattr(n, "value", None) is not None and canon(n.value, idefs).endswith((".config.bounds", ".config.problem.bounds")) and any(is_self_attr(t, None, init.self_name()) for t in (n.targets if isinstance(n, ast.Assign) else [n.target]))]
        if renamed:
            return [ctx.ob("R01.4", init, renamed[0], status=INCONCLUSIVE, detail=f"the deme keeps the level's bounds under another name (`{norm(renamed[0])[:60]}`): the uses of that field are not followed by this rule", construct="deme-bounds")]
    vt = canon(st[0].value, idefs) if len(st) == 1 else "?"
    bs = _box_status(st[0].value, init.self_name(), idefs) if len(st) == 1 else "unknown"
    status = OK if (len(st) == 1 and (vt.endswith(".config.bounds") or vt.endswith(".config.problem.bounds"))) else VIOLATION if (not st or bs in ("modified", "none")) else INCONCLUSIVE
    if not st:
        # `_bounds` may be a read-only property of the deme that reads the level configuration
        pm = ctx.prog.lookup_method(ctx.prog.cls("AbstractDeme"), "_bounds")
        if pm is not None:
            rets = [r.value for r in body_walk(pm.node) if isinstance(r, ast.Return) and r.value is not None]
            cfg_ok = len(rets) == 1 and norm(rets[0]) in (f"{pm.self_name()}._config.bounds", f"{pm.self_name()}._config.problem.bounds", f"{pm.self_name()}._problem.bounds")
            cst = [n for n in body_walk(init.node) if isinstance(n, (ast.Assign, ast.AnnAssign)) and any(is_self_attr(t, "_config", init.self_name()) for t in (n.targets if isinstance(n, ast.Assign) else [n.target]))]
            cfg_src = len(cst) == 1 and canon(cst[0].value, idefs).endswith(".config")
            status = OK if (cfg_ok and cfg_src) else INCONCLUSIVE
            obs.append(ctx.ob("R01.4", pm, pm.node, status=status, detail="deme bounds = level config bounds (read through a property)" if status == OK else f"deme bounds are computed by the property `_bounds` (`{norm(rets[0]) if rets else '?'}`): not recognised as the level configuration's box", construct="deme-bounds"))
            st = None
    if st is not None:
      obs.append(ctx.ob("R01.4", init, st[0] if st else init.node, status=status, detail="deme bounds = level config bounds" if status == OK else f"deme bounds are `{norm(st[0].value) if st else '?'}`", construct="deme-bounds"))
    others = []
    base = ctx.prog.cls("AbstractDeme")
    for ci in [base] + ctx.prog.subclasses(base):
        for f in ctx.prog.functions_in(ci):
            fsn = (f.self_name() if f.parent is None else f.parent.self_name()) or "self"
            for n in body_walk(f.node):
                tg = n.targets if isinstance(n, ast.Assign) else [n.target] if isinstance(n, (ast.AugAssign, ast.AnnAssign)) else []
                for t in tg:
                    b = t
                    while isinstance(b, ast.Subscript):
                        b = b.value
                    if is_self_attr(b, "_bounds", fsn) and not (f is init and t is b):
                        others.append((f, n))
    for f, n in others:
        obs.append(ctx.ob("R01.4", f, n, status=VIOLATION, detail=f"`{norm(n)[:60]}` changes a deme's bounds after construction"))
    cb = ctx.prog.own_method("BaseLevelConfig", "bounds")
    rets = [r for r in body_walk(cb.node) if isinstance(r, ast.Return)]
    ok = len(rets) == 1 and norm(rets[0].value) == f"{cb.self_name()}.problem.bounds"
    obs.append(ctx.ob("R01.4", cb, cb.node, status=OK if ok else VIOLATION, detail="level bounds = problem.bounds" if ok else f"BaseLevelConfig.bounds returns `{norm(rets[0].value) if rets else '?'}`", construct="config-bounds"))
    for ci in ctx.prog.subclasses(ctx.prog.cls("BaseLevelConfig")):
        if "bounds" in ci.methods:
            obs.append(ctx.ob("R01.4", ci.methods["bounds"], None, status=VIOLATION, detail=f"{ci.name} overrides `bounds`", construct=f"{ci.name}.bounds"))
    # operators constructed with problem.bounds
    n = 0
    for f in ctx.prog.all_functions():
        if f.name != "create" or f.cls is None:
            continue
        defs = local_defs(f)
        for c in body_walk(f.node):
            if isinstance(c, ast.Call):
                b = next((k.value for k in c.keywords if k.arg == "bounds"), None)
                if b is None:
                    continue
                n += 1
                ok = isinstance(b, ast.Attribute) and b.attr == "bounds" and isinstance(b.value, ast.Name) and b.value.id in defs and all(canon(d) in ("kwargs.get('problem')", 'kwargs.get("problem")', "kwargs['problem']") for d in defs[b.value.id])
                obs.append(ctx.ob("R01.4", f, c, status=OK if ok else VIOLATION, detail=f"{norm(c.func)} built with the deme problem's bounds" if ok else f"{norm(c.func)} is built with bounds=`{norm(b)}`, not the bounds of the problem the engine is created for"))
    if n < 5:
        raise AnalysisError(f"only {n} operator constructions with bounds= found (6 confirmed by hand)")
    return obs


def r01_5(ctx: Ctx):
    """R01.5 every apply_bounds call names a handled method; unhandled methods raise."""
    handled = handled_methods(ctx)
    if len(handled) < 3:
        raise AnalysisError(f"apply_bounds handles only {sorted(handled)}")
    obs = []
    ab = ctx.prog.func("pyhms.demes.single_pop_eas.common", "apply_bounds")
    # final else raises
    raises = [n for n in body_walk(ab.node) if isinstance(n, ast.Raise)]
    obs.append(ctx.ob("R01.5", ab, raises[0] if raises else ab.node, status=OK if raises else VIOLATION, detail=f"handled methods {sorted(handled)}; anything else raises" if raises else "apply_bounds silently returns unrepaired genomes for an unknown method", construct="else-raises"))
    # every branch returns something built from the lower/upper columns
    n = 0
    for f in ctx.prog.all_functions():
        for c in body_walk(f.node):
            if isinstance(c, ast.Call) and norm(c.func).split(".")[-1] == "apply_bounds" and f is not ab:
                n += 1
                m = c.args[2] if len(c.args) > 2 else next((k.value for k in c.keywords if k.arg == "method"), None)
                ok = isinstance(m, ast.Constant) and m.value in handled
                obs.append(ctx.ob("R01.5", f, c, status=OK if ok else VIOLATION if isinstance(m, ast.Constant) else INCONCLUSIVE, detail=f"method {m.value!r} is handled" if ok else f"apply_bounds is called with method `{norm(m) if m is not None else '<missing>'}`, which it does not handle"))
    if n < 4:
        raise AnalysisError(f"only {n} apply_bounds call sites found (4 confirmed by hand)")
    return obs


def r01_6(ctx: Ctx):
    """R01.6 minimize() returns the genome of the tree's best individual."""
    f = ctx.prog.func("pyhms.hms", "minimize")
    calls = [c for c in body_walk(f.node) if isinstance(c, ast.Call) and any(k.arg == "x" for k in c.keywords) and any(k.arg == "nfev" for k in c.keywords)]
    if not calls:
        raise AnalysisError("minimize() no longer builds its result")
    x = next(k.value for k in calls[0].keywords if k.arg == "x")
    defs = local_defs(f)
    t = canon(x, defs)
    ok = t.endswith(".best_individual.genome")
    st = OK if ok else VIOLATION
    if not ok:
        # any RECORDED individual's genome is box-closed (R01.1-R01.5): which of them is reported is C04's question, not this one
        def arms(e, depth=0):
            while isinstance(e, ast.Name) and len(defs.get(e.id, [])) == 1 and depth < 5:
                e = defs[e.id][0]
                depth += 1
            if isinstance(e, ast.IfExp):
                return arms(e.body, depth + 1) + arms(e.orelse, depth + 1)
            return [e]

        def recorded(e):
            if not (isinstance(e, ast.Attribute) and e.attr == "genome"):
                return None
            outs = []
            for a in arms(e.value):
                if isinstance(a, ast.Attribute) and "best" in a.attr and "individual" in a.attr:
                    outs.append(True)
                elif isinstance(a, (ast.BinOp, ast.Constant)) or (isinstance(a, ast.Call) and norm(a.func).split(".")[0] in ("np", "numpy")):
                    outs.append(False)
                else:
                    outs.append(None)
            return True if all(o is True for o in outs) else False if any(o is False for o in outs) else None

        verdicts = [recorded(a) for a in arms(x)]
        if all(v is True for v in verdicts):
            st = OK
        elif any(isinstance(a, (ast.BinOp, ast.Constant)) or (isinstance(a, ast.Call) and norm(a.func).split(".")[0] in ("np", "numpy", "apply_bounds")) for a in arms(x)) or any(v is False for v in verdicts):
            st = VIOLATION
        else:
            st = INCONCLUSIVE
    obs = [ctx.ob("R01.6", f, x, status=st, detail="x = genome of a recorded best individual (recorded individuals are box-closed)" if st == OK else f"minimize() returns x = `{norm(x)}`" + (" - a value computed after the run, not the genome of a recorded individual" if st == VIOLATION else ": cannot tell whether this is the genome of a recorded individual"))]
    # the box the run works in is the box the caller declared: `bounds` is at most converted to an array on its way to the problem
    bp = "bounds"
    if bp in f.params():
        CONV = ("np.array", "np.asarray", "numpy.array", "numpy.asarray", "np.asanyarray", "np.ascontiguousarray", "list", "tuple")
        bad = und = None
        for n in body_walk(f.node):
            if isinstance(n, (ast.Assign, ast.AnnAssign, ast.AugAssign)) and getattr(n, "value", None) is not None:
                tg = n.targets if isinstance(n, ast.Assign) else [n.target]
                if not any(isinstance(t_, ast.Name) and t_.id == bp for t_ in tg):
                    continue
                v = n.value
                while isinstance(v, ast.Call) and norm(v.func) in CONV and v.args:
                    v = v.args[0]
                if isinstance(v, ast.Name) and v.id == bp and not isinstance(n, ast.AugAssign):
                    continue
                reorders = isinstance(n, ast.AugAssign) or any(isinstance(c, ast.Call) and norm(c.func).split(".")[-1] in ("sort", "sorted", "clip", "abs", "flip", "roll", "maximum", "minimum", "round", "floor", "ceil") for c in ast.walk(n.value)) or any(isinstance(c, ast.BinOp) for c in ast.walk(n.value))
                if reorders:
                    bad = bad or n
                else:
                    und = und or n
        if bad is not None:
            obs.append(ctx.ob("R01.6", f, bad, status=VIOLATION, detail=f"minimize() rewrites the caller's box before the run (`{norm(bad)[:80]}`): the search then works in - and returns points of - a box other than the declared one (e.g. a sort along axis 0 permutes the lower bounds among the coordinates)", construct="declared-box"))
        elif und is not None:
            obs.append(ctx.ob("R01.6", f, und, status=INCONCLUSIVE, detail=f"minimize() rebinds `bounds` (`{norm(und)[:80]}`)", construct="declared-box"))
        else:
            obs.append(ctx.ob("R01.6", f, f.node, detail="minimize() hands the declared bounds on unchanged (array conversion only)", construct="declared-box"))
    return obs


# ---------------------------------------------------------------- R01.7 symbolic intervals for the repair function
NEG, POS = float("-inf"), float("inf")


def _iv_add(a, b):
    """endpoints are (coefficient of R, constant) with constant in {0, -inf, +inf}"""
    if a[1] in (NEG, POS) or b[1] in (NEG, POS):
        if NEG in (a[1], b[1]) and POS in (a[1], b[1]):
            return None
        return (0, NEG if NEG in (a[1], b[1]) else POS)
    return (a[0] + b[0], 0)


def _iv_neg(a):
    return (-a[0], -a[1] if a[1] in (NEG, POS) else 0)


def _le(a, b):
    """a <= b for all R > 0"""
    if a[1] == NEG or b[1] == POS:
        return True
    if a[1] == POS or b[1] == NEG:
        return False
    return a[0] <= b[0]


class RepairIntervals:
    """Abstract values: ("off", lo, hi)  = value - lower in [lo, hi];  ("abs",) = unconstrained genome;
    ("L",) ("U",) ("R",) the lower / upper column and the range; ("other",)."""

    def __init__(self, fn):
        self.fn = fn
        self.gp, self.bp = fn.params()[0], fn.params()[1]

    def val(self, e, env):
        t = canon(e)
        if isinstance(e, ast.Name):
            if e.id in env:
                return env[e.id]
            if e.id == self.gp:
                return ("off", (0, NEG), (0, POS))
            return ("other",)
        if t == f"{self.bp}[:,0]":
            return ("L",)
        if t == f"{self.bp}[:,1]":
            return ("U",)
        if isinstance(e, ast.BinOp):
            l, r = self.val(e.left, env), self.val(e.right, env)
            if isinstance(e.op, ast.Sub):
                if l == ("U",) and r == ("L",):
                    return ("R",)
                if l[0] == "off" and r == ("L",):
                    return l  # genome - lower: already tracked as an offset from lower
                if l == ("R",) and r[0] == "off":
                    lo, hi = _iv_add((1, 0), _iv_neg(r[2])), _iv_add((1, 0), _iv_neg(r[1]))
                    return ("off", lo, hi) if lo is not None and hi is not None else ("off", (0, NEG), (0, POS))
                if l[0] == "off" or r[0] == "off":
                    return ("off", (0, NEG), (0, POS))
            if isinstance(e.op, ast.Add):
                for a, b in ((l, r), (r, l)):
                    if a == ("L",) and b[0] == "off":
                        return ("absoff", b[1], b[2])
                if l[0] == "off" or r[0] == "off":
                    return ("off", (0, NEG), (0, POS))
            if isinstance(e.op, ast.Mod):
                if r == ("R",) and l[0] in ("off",):
                    return ("off", (0, 0), (1, 0))
            if isinstance(e.op, (ast.Mult, ast.Div, ast.FloorDiv, ast.Pow)):
                if l[0] == "off" or r[0] == "off" or l[0] == "absoff" or r[0] == "absoff":
                    return ("off", (0, NEG), (0, POS))
                if {l, r} & {("L",), ("U",)}:
                    return ("other",)
            return ("other",)
        if isinstance(e, ast.Call):
            fn = norm(e.func)
            a = e.args
            if fn in ("np.mod", "np.remainder", "np.fmod") and len(a) == 2:
                x, m = self.val(a[0], env), self.val(a[1], env)
                if m == ("R",) and x[0] == "off" and fn != "np.fmod":
                    return ("off", (0, 0), (1, 0))
                return ("other",) if x[0] != "off" else ("off", (0, NEG), (0, POS))
            if fn in ("np.where",) and len(a) == 3:
                x, y = self.val(a[1], env), self.val(a[2], env)
                # the branch that keeps an expression is taken where the mask says so: `np.where(g < lower, X, g)` keeps g only
                # where g >= lower
                def refine(v, expr, cond, truth):
                    if v[0] != "off" or not (isinstance(cond, ast.Compare) and len(cond.ops) == 1):
                        return v
                    l_, r_, op = cond.left, cond.comparators[0], type(cond.ops[0])
                    if canon(r_) == canon(expr):
                        l_, r_, op = r_, l_, {ast.Lt: ast.Gt, ast.Gt: ast.Lt, ast.LtE: ast.GtE, ast.GtE: ast.LtE}.get(op, op)
                    if canon(l_) != canon(expr):
                        return v
                    side = self.val(r_, env)
                    if not truth:
                        op = {ast.Lt: ast.GtE, ast.GtE: ast.Lt, ast.Gt: ast.LtE, ast.LtE: ast.Gt}.get(op, op)
                    lo, hi = v[1], v[2]
                    if side == ("L",) and op in (ast.GtE, ast.Gt):
                        lo = (0, 0) if _le(lo, (0, 0)) else lo
                    if side == ("U",) and op in (ast.LtE, ast.Lt):
                        hi = (1, 0) if _le((1, 0), hi) else hi
                    return ("off", lo, hi)

                x, y = refine(x, a[1], a[0], True), refine(y, a[2], a[0], False)
                for kept, other in ((x, y), (y, x)):
                    # one branch hands on an expression that is unbounded on a side the mask does not exclude, the other is
                    # something this interpreter does not bound: whatever that is, the kept side alone leaves the box
                    if kept[0] == "off" and other[0] == "other" and (kept[1] == (0, NEG) or kept[2] == (0, POS)):
                        return kept
                if x[0] == y[0] and x[0] in ("off", "absoff"):
                    lo = x[1] if _le(x[1], y[1]) else y[1]
                    hi = x[2] if _le(y[2], x[2]) else y[2]
                    return (x[0], lo, hi)
                if "off" in (x[0], y[0]) and "absoff" in (x[0], y[0]):
                    return ("mixed",)
                return ("other",)
            if fn in ("np.clip",) and len(a) == 3:
                lo, hi = self.val(a[1], env), self.val(a[2], env)
                if lo == ("L",) and hi == ("U",):
                    return ("absoff", (0, 0), (1, 0))
                return ("absoff", (0, NEG), (0, POS))
            if fn in ("np.floor_divide", "np.floor", "np.abs", "np.sign"):
                return ("other",)
            if fn in ("np.minimum", "np.maximum") and len(a) == 2:
                x, y = self.val(a[0], env), self.val(a[1], env)
                # maximum(genomes, lower) >= lower ; minimum(.., upper) <= upper  (in offset form)
                def as_off(v):
                    if v == ("L",):
                        return ("off", (0, 0), (0, 0))
                    if v == ("U",):
                        return ("off", (1, 0), (1, 0))
                    if v[0] == "absoff":
                        return ("off", v[1], v[2])
                    return v
                x, y = as_off(x), as_off(y)
                if x[0] == y[0] == "off":
                    if fn == "np.maximum":
                        lo = x[1] if _le(y[1], x[1]) else y[1]
                        hi = x[2] if _le(y[2], x[2]) else y[2]
                    else:
                        lo = x[1] if _le(x[1], y[1]) else y[1]
                        hi = x[2] if _le(x[2], y[2]) else y[2]
                    return ("absoff", lo, hi)
            return ("other",)
        if isinstance(e, ast.Compare):
            return ("other",)
        return ("other",)


def r01_7(ctx: Ctx):
    """R01.7 every branch of apply_bounds returns lower + offset with offset in [0, range] (symbolic interval interpretation; mod by the range bounds the offset)."""
    ab = ctx.prog.func("pyhms.demes.single_pop_eas.common", "apply_bounds")
    interp = RepairIntervals(ab)
    mp = ab.params()[2]
    obs = []
    # walk the if/elif chain on the method
    def branches(stmts, env):
        for st in stmts:
            if isinstance(st, ast.Assign) and len(st.targets) == 1 and isinstance(st.targets[0], ast.Name):
                env[st.targets[0].id] = interp.val(st.value, env)
            elif isinstance(st, ast.If):
                yield from branches(st.body, dict(env))
                yield from branches(st.orelse, dict(env))
            elif isinstance(st, ast.Return):
                yield st, dict(env)

    n = 0
    for ret, env in branches(ab.node.body, {}):
        n += 1
        v = interp.val(ret.value, env)
        ok = v[0] == "absoff" and _le((0, 0), v[1]) and _le(v[2], (1, 0))
        if ok:
            obs.append(ctx.ob("R01.7", ab, ret, detail=f"`{norm(ret.value)[:60]}` lies in [lower, upper] for every input (offset interval within [0, range])"))
        else:
            desc = "unbounded" if v[0] in ("off", "absoff") else "not of the form lower + bounded offset"
            obs.append(ctx.ob("R01.7", ab, ret, status=VIOLATION if v[0] in ("off", "absoff", "mixed") else INCONCLUSIVE, detail=f"apply_bounds returns `{norm(ret.value)[:70]}`, whose distance from the lower bound is {desc} ({v}): an input far enough outside the box is returned outside the box (e.g. a single mirror image of a point more than one range away)"))
    if n < 3:
        raise AnalysisError(f"apply_bounds has only {n} returning branches")
    return obs


def r01_8(ctx: Ctx):
    """R01.8 a zero-initialised genome buffer is written on every path of every iteration of the loop that fills it (the all-zero row is outside a box that does not contain the origin)."""
    from ..cfg import typestate, witness_path

    obs = []
    n = 0
    for f in ctx.prog.all_functions():
        if f.name == "<module>" or not f.module.name.startswith("pyhms.demes"):
            continue
        bufs = {}
        for st in body_walk(f.node):
            if isinstance(st, ast.Assign) and len(st.targets) == 1 and isinstance(st.targets[0], ast.Name) and isinstance(st.value, ast.Call) and norm(st.value.func).split(".")[-1] in ("zeros_like", "zeros", "empty", "empty_like"):
                bufs[st.targets[0].id] = st
        if not bufs:
            continue
        cfg = ctx.cfg(f)
        for b, bst in bufs.items():
            def stores(node):
                if node.kind != "stmt" or not isinstance(node.ast, (ast.Assign, ast.AugAssign)):
                    return False
                tg = node.ast.targets if isinstance(node.ast, ast.Assign) else [node.ast.target]
                return any(isinstance(t, ast.Subscript) and isinstance(t.value, ast.Name) and t.value.id == b for t in tg)

            loops = [L for L in cfg.loop_info if isinstance(L["stmt"], (ast.For, ast.While)) and any(stores(x) for x in cfg.nodes if cfg.loop_of(x) is L)] if hasattr(cfg, "loop_info") else []
            if not loops:
                # filled without a loop (slice stores / vectorised): not this rule's subject
                continue
            for L in loops:
                n += 1
                head = L["head"]
                viol = []

                def node_fn(x, s, head=head):
                    if x is head:
                        if s is False:
                            viol.append((x, s))
                        return ["HEAD"]
                    if s == "OUT":
                        return [s]
                    if stores(x):
                        return [True]
                    return [s]

                def edge_fn(x, lab, s, head=head):
                    if x is head:
                        return False if lab in ("iter", True) else "OUT"
                    return s

                at, exits, parent = typestate(cfg, ["OUT"], node_fn, edge_fn)
                # leaving the loop through `break` without having written this iteration's rows
                brk = [x for x in cfg.nodes if cfg.loop_of(x) is L and x.kind == "stmt" and isinstance(x.ast, ast.Break) and False in at.get(x.id, set())]
                if viol or brk:
                    w = viol[0] if viol else (brk[0], False)
                    obs.append(ctx.ob("R01.8", f, L["stmt"], status=VIOLATION, detail=f"{f.short}: on some path an iteration of the loop filling `{b}` (created by `{norm(bst.value)[:40]}`) writes nothing: those rows keep the initial zeros, and the all-zero genome is evaluated although it lies outside every box that does not contain the origin", witness=witness_path(cfg, parent, w[0].id, w[1]), construct=f"{f.short}:{b}"))
                else:
                    obs.append(ctx.ob("R01.8", f, L["stmt"], detail=f"{f.short}: every iteration writes its rows of `{b}`", construct=f"{f.short}:{b}"))
    if n == 0:
        obs.append(ctx.ob("R01.8", None, None, subject="pyhms.demes", loc="-", detail="no loop-filled zero-initialised buffer", construct="none", trivial=True))
    return obs


RULES = [
    ("R01.1", r01_1, 10),
    ("R01.2", r01_2, 14),
    ("R01.3", r01_3, 2),
    ("R01.4", r01_4, 7),
    ("R01.5", r01_5, 5),
    ("R01.6", r01_6, 1),
    ("R01.7", r01_7, 3),
    ("R01.8", r01_8, 1),
]
