"""C04 — the reported best is the true best of everything kept, and never gets worse."""
from __future__ import annotations

import ast
import re

from ..core import INCONCLUSIVE, OK, VIOLATION, Ctx, canon, is_self_attr, local_defs, parents_map
from ..model import AnalysisError, body_walk, norm
from . import c02, c13

CLAIM = """Decides the structural clauses: (R04.1) a deme's best is recomputed on every read as max (direction-aware Individual order)
over its complete history, the tree's best as max over the bests of all demes of all levels; no filtered or truncated source
and no cached best anywhere; (R04.2) histories are append-only (R02.8), so a maximum over a growing multiset never decreases;
(R04.3) the order is Individual.__lt__ -> problem.worse_than with the right polarity (R13.4, R13.2); (R04.4) minimize() takes x
and fun from the same accessor (the tree's best individual) and nit from the metaepoch counter; (R04.5) every evaluated point is
recorded or dominated by a recorded one: selection keeps the best of (offspring + elites) / the better of each (trial, parent)
pair, only the last operator of a pipeline evaluates, and demes record exactly what their engine step returned; (R04.6) maxfun
flows only into the cutoff wrapper and the stop condition and seed only into options['random_seed'] — so a larger budget
replays the same evaluations as a prefix. (R04.8) no objective value is kept in state shared between problems (class-body containers, mutable default arguments); (R04.3) what `worse_than` does before its direction switch concerns NaN only; a best picked by argmax/argmin over raw values is not NaN-aware; positional cuts and possibly-zero elite counts in the population algebra. (R04.9) no individual carries another level's fitness or a sign-adapted value (R02.12; the local optimiser is exempt as in the property)."""
NOTE = """The prefix / anytime behaviour itself (identical evaluation sequences for two budgets) quantifies over runs and is not executed;
R04.6 decides the no-interference clause it rests on. The local optimiser's iterates are excluded by the property."""
TECHNIQUE = "accessor provenance (def-use over property chains), append-only and order-polarity rules shared with C02/C13, selection algebra and information-flow of the budget parameter (custom ast analysis)"
EXPLANATION = """
R04.1 resolves the property chain best_individual -> all_individuals -> history -> _history by def-use and requires each link
to be the unfiltered, complete source. R04.5 checks select_new_population / DE.run / SHADE.run against the algebraic facts
topk(n >= 1) contains best(X), merge(A, B) contains A and B, and T[m] merged with P[~m] for one mask m. R04.6 enumerates every
use of `maxfun` and `seed` in minimize().
"""
ASSUMPTIONS = ["max() over Individuals returns a maximal element of the direction-aware total preorder"]


def _reduced_return(f):
    """The value a function returns as one expression (locals substituted, if/return chains folded), or None."""
    import copy

    from ..core import _Subst
    from ..normalize import _expr_of_block

    body = [x for x in f.node.body if not (isinstance(x, ast.Expr) and isinstance(x.value, ast.Constant))]
    e = _expr_of_block(body, ast.Constant(value=None), allow_dup=True)
    if e is None:
        rets = [r for r in body_walk(f.node) if isinstance(r, ast.Return) and r.value is not None]
        if len(rets) != 1:
            return None
        e = _Subst(local_defs(f), 5).visit(copy.deepcopy(rets[0].value))
    return e


def _strip_none_guard(e):
    """`X if c else None` / `None if c else X`  ->  (X, c or not-c text); anything else -> (e, None)"""
    guards = []
    # `<empty-case> if X is S else X` with X = max(G, default=S): the maximum of G, with a value for the empty case
    if isinstance(e, ast.IfExp) and isinstance(e.test, ast.Compare) and len(e.test.ops) == 1 and isinstance(e.test.ops[0], (ast.Is, ast.IsNot)):
        x_arm, other = (e.orelse, e.body) if isinstance(e.test.ops[0], ast.Is) else (e.body, e.orelse)
        s_txt = norm(e.test.comparators[0])
        if isinstance(x_arm, ast.Call) and norm(x_arm.func) in ("max", "min") and norm(e.test.left) == norm(x_arm) and any(k.arg == "default" and norm(k.value) == s_txt for k in x_arm.keywords):
            import copy as _copy

            e = _copy.deepcopy(x_arm)
            e.keywords = [k for k in e.keywords if k.arg != "default"]
            guards.append("default")
    if isinstance(e, ast.Call) and norm(e.func) in ("max", "min") and any(k.arg == "default" and isinstance(k.value, ast.Constant) and k.value.value is None for k in e.keywords):
        import copy as _copy

        e = _copy.deepcopy(e)
        e.keywords = [k for k in e.keywords if k.arg != "default"]
        guards.append("default")
    while isinstance(e, ast.IfExp) and any(isinstance(a, ast.Constant) and a.value is None for a in (e.body, e.orelse)):
        none_first = isinstance(e.body, ast.Constant) and e.body.value is None
        guards.append(canon(e.test))
        e = e.orelse if none_first else e.body
    if isinstance(e, ast.BoolOp) and isinstance(e.op, ast.And) and len(e.values) == 2:
        # `X and max(X)` idiom
        guards.append(canon(e.values[0]))
        e = e.values[1]
    return e, guards


def _iteration_structure(ctx, f, src):
    """(iterables, filters, element) of a comprehension / generator expression, or of a private generator method made of
    nested for / if / yield."""
    if isinstance(src, (ast.GeneratorExp, ast.ListComp)):
        return [canon(g.iter) for g in src.generators], [canon(c) for g in src.generators for c in g.ifs], canon(src.elt), [g.target for g in src.generators]
    if isinstance(src, ast.Call) and isinstance(src.func, ast.Attribute) and isinstance(src.func.value, ast.Name) and src.func.value.id == f.self_name() and not src.args and f.cls is not None:
        m = ctx.prog.lookup_method(f.cls, src.func.attr)
        if m is not None:
            iters, filters, elts, tgts = [], [], [], []

            def walk(stmts):
                for st in stmts:
                    if isinstance(st, ast.For):
                        iters.append(canon(st.iter))
                        tgts.append(st.target)
                        walk(st.body)
                    elif isinstance(st, ast.If) and not st.orelse:
                        filters.append(canon(st.test))
                        walk(st.body)
                    elif isinstance(st, ast.Expr) and isinstance(st.value, ast.Yield) and st.value.value is not None:
                        elts.append(canon(st.value.value))
                    elif isinstance(st, ast.Expr) and isinstance(st.value, ast.Constant):
                        pass
                    else:
                        elts.append("?")

            walk(m.node.body)
            if len(elts) == 1 and elts[0] != "?":
                return iters, filters, elts[0], tgts
    return None


def r04_1(ctx: Ctx):
    """R04.1 best accessors are recomputed from the complete history of one / of all demes; nothing caches a best."""
    obs = []
    base = ctx.prog.cls("AbstractDeme")
    tree = ctx.prog.cls("DemeTree")

    def single_return(m):
        rets = [r for r in body_walk(m.node) if isinstance(r, ast.Return)]
        return rets[0].value if len(rets) == 1 else None

    b = base.methods.get("best_individual")
    if b is None:
        raise AnalysisError("AbstractDeme.best_individual vanished")
    sn = b.self_name()
    e = _reduced_return(b)
    st, why = INCONCLUSIVE, "cannot reduce best_individual to one expression"
    if e is not None:
        core, guards = _strip_none_guard(e)
        why = f"returns `{norm(e)[:80]}`"
        if isinstance(core, ast.Call) and norm(core.func) in ("max", "min") and core.args:
            src = canon(core.args[0])
            if norm(core.func) == "min":
                st, why = VIOLATION, f"takes min() of `{src}`: the worst individual in the problem's direction"
            elif any(k.arg == "key" for k in core.keywords):
                st, why = VIOLATION, "takes max() with a key: the direction-aware order of individuals is bypassed"
            elif src == f"{sn}.all_individuals" and all(g in (f"{sn}.all_individuals", f"not{sn}.all_individuals", f"len({sn}.all_individuals)>0", f"len({sn}.all_individuals)==0", f"len({sn}.all_individuals)", "default") for g in guards):
                st = OK
            elif src in (f"{sn}.current_population", f"{sn}._history[-1][-1]", f"{sn}.history[-1]") or src.startswith((f"{sn}.all_individuals[", f"{sn}.history[", f"{sn}._history[")) or " if " in norm(core.args[0]):
                st, why = VIOLATION, f"takes the maximum of `{src}`: not the deme's complete history"
        if st == INCONCLUSIVE:
            # chosen by position in an array of raw fitness values: np.argmax / np.argmin return the FIRST NaN when one is
            # present, while the order of individuals ranks NaN (a failed evaluation) below every proper value
            arg = [c for c in ast.walk(e) if isinstance(c, ast.Call) and norm(c.func).split(".")[-1] in ("argmax", "argmin", "argsort")]
            nan_aware = [c for c in ast.walk(e) if isinstance(c, ast.Call) and norm(c.func).split(".")[-1] in ("nanargmax", "nanargmin", "isnan", "nan_to_num")]
            if arg and not nan_aware and any(isinstance(x, ast.Attribute) and x.attr in ("fitness", "fitnesses") for x in ast.walk(e)):
                st, why = VIOLATION, f"picks the best by `{norm(arg[0])[:60]}` over raw fitness values: with a NaN fitness in the history (a failed evaluation) the position of the first NaN is returned, so an individual that is worse than every properly evaluated one is reported as the best"
    obs.append(ctx.ob("R04.1", b, b.node, status=st, detail="deme best = max over all individuals of its history" if st == OK else f"AbstractDeme.best_individual {why}: not the maximum over the deme's complete history", construct="deme-best"))
    ai = base.methods.get("all_individuals")
    v = _reduced_return(ai)
    sn = ai.self_name()
    ok = isinstance(v, ast.ListComp) and len(v.generators) == 2 and canon(v.generators[0].iter) in (f"{sn}.history", f"{sn}._history") and not v.generators[0].ifs and not v.generators[1].ifs and isinstance(v.generators[0].target, ast.Name) and canon(v.generators[1].iter) == v.generators[0].target.id and isinstance(v.generators[1].target, ast.Name) and norm(v.elt) == v.generators[1].target.id
    ok3 = isinstance(v, ast.ListComp) and len(v.generators) == 3 and canon(v.generators[0].iter) == f"{sn}._history" and all(not g.ifs for g in v.generators) and all(isinstance(g.target, ast.Name) for g in v.generators) and canon(v.generators[1].iter) == v.generators[0].target.id and canon(v.generators[2].iter) == v.generators[1].target.id and norm(v.elt) == v.generators[2].target.id
    filtered = isinstance(v, ast.ListComp) and (any(g.ifs for g in v.generators) or any(isinstance(g.iter, ast.Subscript) for g in v.generators))
    obs.append(ctx.ob("R04.1", ai, ai.node, status=OK if (ok or ok3) else VIOLATION if filtered else INCONCLUSIVE, detail="all_individuals = every individual of every recorded generation" if (ok or ok3) else f"all_individuals is `{norm(v)[:80] if v is not None else '?'}`: not the unfiltered flattening of the history", construct="all-individuals"))
    # history flattening is checked by R11.4 (shared)
    from . import c11

    for o in c11.r11_4(ctx):
        if o.construct == "history":
            o.rule = "R04.1"
            obs.append(o)
    t = tree.methods.get("best_individual")
    sn = t.self_name()
    e = _reduced_return(t)
    st, why = INCONCLUSIVE, "cannot reduce DemeTree.best_individual to one expression"
    if e is not None:
        core, guards = _strip_none_guard(e)
        why = f"returns `{norm(e)[:90]}`"
        if isinstance(core, ast.Call) and norm(core.func) in ("max", "min") and len(core.args) == 1:
            if norm(core.func) == "min":
                st, why = VIOLATION, "takes min(): the worst individual"
            else:
                it = _iteration_structure(ctx, t, core.args[0])
                if it is not None:
                    iters, filters, elt, tgts = it
                    names = [x.id for tg in tgts for x in ast.walk(tg) if isinstance(x, ast.Name)]
                    d = names[-1] if names else "?"
                    all_levels = (len(iters) == 2 and iters[0] in (f"{sn}._levels", f"{sn}.levels") and isinstance(tgts[0], ast.Name) and iters[1] == tgts[0].id) or (len(iters) == 1 and iters[0] == f"{sn}.all_demes")
                    elt_ok = elt == f"{d}.best_individual"
                    filt_ok = all(fl in (f"{d}.best_individual", f"{d}.best_individualisnotNone") for fl in filters)
                    partial = any(any(k in i for k in (".leaves", ".active_demes", ".active_non_leaves", "levels[", ".root")) for i in iters) or any("is_active" in fl or "_hibernating" in fl or ".level" in fl for fl in filters)
                    if all_levels and elt_ok and filt_ok:
                        st = OK
                    elif partial:
                        st, why = VIOLATION, f"ranges over {iters} under {filters}, not over every deme of every level"
                    elif all_levels and not elt_ok and elt.endswith((".best_current_individual", ".current_population")):
                        st, why = VIOLATION, f"takes `{elt}` of each deme, not its best over the whole history"
    if e is not None and st != VIOLATION:
        # a bare truthiness test of a fitness value drops individuals whose fitness is exactly 0.0
        for comp in ast.walk(e):
            if isinstance(comp, ast.comprehension):
                for cnd in comp.ifs:
                    conj = cnd.values if isinstance(cnd, ast.BoolOp) and isinstance(cnd.op, ast.And) else [cnd]
                    if any(isinstance(x, ast.Attribute) and x.attr in ("fitness", "best_fitness") for x in conj):
                        st, why = VIOLATION, f"filters the demes' bests with the truthiness of a fitness value (`{norm(cnd)}`): a best with fitness exactly 0.0 is dropped from the maximum"
    obs.append(ctx.ob("R04.1", t, t.node, status=st, detail="tree best = max over every deme's best on every level" if st == OK else f"DemeTree.best_individual {why}", construct="tree-best"))
    for ci in ctx.prog.subclasses(base):
        for nm in ("best_individual", "all_individuals"):
            if nm in ci.methods:
                obs.append(ctx.ob("R04.1", ci.methods[nm], None, status=VIOLATION, detail=f"{ci.name} overrides `{nm}`", construct=f"{ci.name}.{nm}"))
    # no cached best
    for ci in [base, tree] + ctx.prog.subclasses(base):
        for f in ctx.prog.functions_in(ci):
            fsn = (f.self_name() if f.parent is None else f.parent.self_name()) or "self"
            for n in body_walk(f.node):
                tg = n.targets if isinstance(n, ast.Assign) else [n.target] if isinstance(n, (ast.AugAssign, ast.AnnAssign)) else []
                for tt in tg:
                    if is_self_attr(tt, None, fsn) and "best" in tt.attr.lower():
                        obs.append(ctx.ob("R04.1", f, n, status=VIOLATION, detail=f"`{norm(n)[:70]}` caches a best individual / fitness in an attribute: the reported best can go stale or be overwritten by a worse one"))
    return obs


def r04_2(ctx: Ctx):
    """R04.2 append-only histories (R02.8): the maximum over a growing multiset never decreases."""
    out = []
    for o in c02.r02_8(ctx, growth_is_harmless=True):
        o.rule = "R04.2"
        out.append(o)
    return out


def r04_3(ctx: Ctx):
    """R04.3 the order behind max() is Individual.__lt__ -> problem.worse_than with the tabled polarity (R13.4, R13.2)."""
    out = []
    for o in c13.r13_4(ctx, with_equivalence=True):
        o.rule = "R04.3"
        out.append(o)
    for o in c13.r13_2(ctx):
        if "worse_than" in o.subject:
            o.rule = "R04.3"
            out.append(o)
    for o in c13.r13_3(ctx):
        if "best" in o.subject:
            o.rule = "R04.3"
            out.append(o)
    for o in c13.r13_7(ctx, need="by-value"):
        o.rule = "R04.3"
        out.append(o)
    return out


def r04_4(ctx: Ctx, with_nit: bool = True):
    """R04.4 minimize(): x and fun are genome and fitness of the tree's one best individual (C05 additionally: nit is the tree's metaepoch counter)."""
    f = ctx.prog.func("pyhms.hms", "minimize")
    defs = local_defs(f)
    calls = [c for c in body_walk(f.node) if isinstance(c, ast.Call) and any(k.arg == "fun" for k in c.keywords) and any(k.arg == "x" for k in c.keywords)]
    if not calls:
        raise AnalysisError("minimize() no longer builds its result with x= and fun=")
    kw = {k.arg: k.value for k in calls[0].keywords}
    x, fun, nit = canon(kw["x"], defs), canon(kw["fun"], defs), canon(kw.get("nit"), defs) if kw.get("nit") is not None else ""
    obs = []
    okx = x.endswith(".best_individual.genome")
    okf = fun.endswith(".best_individual.fitness")
    same = okx and okf and x[: -len(".genome")] == fun[: -len(".fitness")]
    obs.append(ctx.ob("R04.4", f, kw["fun"], status=OK if same else VIOLATION, detail="x and fun are genome and fitness of the same best individual" if same else f"minimize() reports x=`{norm(kw['x'])}` and fun=`{norm(kw['fun'])}`: not genome and fitness of the tree's one best individual", construct="x-fun"))
    nv = kw.get("nit")
    hops = 0
    while isinstance(nv, ast.Name) and len(defs.get(nv.id, [])) == 1 and hops < 3:
        nv = defs[nv.id][0]
        hops += 1
    xv = kw["x"]
    tree_txt = x[: -len(".best_individual.genome")] if okx else None
    okn = isinstance(nv, ast.Attribute) and nv.attr == "metaepoch_count" and (tree_txt is None or canon(nv.value, defs) == tree_txt)
    definite = nv is None or isinstance(nv, (ast.Constant, ast.IfExp, ast.BinOp)) or (isinstance(nv, ast.Name) and nv.id in f.params())
    if with_nit:
        obs.append(ctx.ob("R04.4", f, kw.get("nit", calls[0]), status=OK if okn else VIOLATION if definite else INCONCLUSIVE, detail="nit = metaepoch counter" if okn else f"nit=`{norm(kw['nit'])[:80] if kw.get('nit') is not None else '?'}`: not the number of metaepochs the tree performed (an iteration LIMIT is not a count: the run may have stopped on another condition first)", construct="nit"))
    return obs


def _k_positive(k: ast.AST):
    """Is the count handed to topk() at least 1 whenever the configured number (k_elites / the population size) is?
    True / False (it can be zero: `min(k, size - 1)`, `k - 1`, `k // 2`) / None (not read)."""
    t = canon(k)
    if isinstance(k, ast.Constant):
        return isinstance(k.value, int) and k.value >= 1
    if isinstance(k, (ast.Name, ast.Attribute)):
        return True  # a configured count / a size: positive by the property's premise (at least one elite, non-empty population)
    if isinstance(k, ast.Call) and norm(k.func) in ("len", "int") and len(k.args) == 1:
        return True if norm(k.func) == "len" else _k_positive(k.args[0])
    if isinstance(k, ast.Call) and norm(k.func) in ("min", "max") and len(k.args) >= 2:
        parts = [_k_positive(a) for a in k.args]
        if norm(k.func) == "max":
            return True if any(p is True for p in parts) else None if any(p is None for p in parts) else False
        return False if any(p is False for p in parts) else None if any(p is None for p in parts) else True
    if isinstance(k, ast.BinOp):
        if isinstance(k.op, ast.Sub) and isinstance(k.right, ast.Constant) and isinstance(k.right.value, (int, float)) and k.right.value >= 1:
            return False  # n - 1 is zero for n = 1
        if isinstance(k.op, (ast.FloorDiv, ast.Div)) and isinstance(k.right, ast.Constant) and isinstance(k.right.value, (int, float)) and k.right.value > 1:
            return False
        if isinstance(k.op, ast.Add):
            l_, r_ = _k_positive(k.left), _k_positive(k.right)
            if l_ is True or r_ is True:
                return True  # a positive count plus a non-negative one
            return None
        if isinstance(k.op, ast.Mult):
            return None
    return None


def _dom(e: ast.AST, atoms: set[str]):
    """Population algebra: the set of atom populations whose best element is dominated by the best element of e
    (atom: itself; X.merge(Y): dom(X) | dom(Y); X.topk(k) with k >= 1: dom(X)); None if e is outside the algebra."""
    t = canon(e)
    if t in atoms:
        return {t}
    if isinstance(e, ast.Call) and isinstance(e.func, ast.Attribute):
        if e.func.attr == "merge" and len(e.args) == 1:
            a, b = _dom(e.func.value, atoms), _dom(e.args[0], atoms)
            return None if a is None or b is None else a | b
        if e.func.attr == "topk" and len(e.args) == 1:
            if isinstance(e.args[0], ast.Constant) and isinstance(e.args[0].value, int) and e.args[0].value < 1:
                return set()
            kp = _k_positive(e.args[0])
            if kp is False:
                return set()  # the count can be zero: nothing of the operand is guaranteed to survive
            if kp is None:
                return None
            return _dom(e.func.value, atoms)
        if e.func.attr == "copy" and not e.args:
            return _dom(e.func.value, atoms)
    if isinstance(e, ast.Subscript) and isinstance(e.slice, ast.Slice):
        inner = _dom(e.value, atoms)
        if inner is None:
            return None
        if e.slice.lower is None and e.slice.upper is None and e.slice.step is None:
            return inner
        if isinstance(e.value, ast.Call) and isinstance(e.value.func, ast.Attribute) and e.value.func.attr == "topk" and e.slice.lower is None and e.slice.step is None:
            return inner  # a best-first population cut at the front keeps its best
        return set()  # a positional cut of a population in no particular order: its best row may be the one cut off
    return None


def r04_4_c04(ctx: Ctx):
    """R04.4 minimize(): x and fun are genome and fitness of the tree's one best individual."""
    return r04_4(ctx, with_nit=False)


def r04_5(ctx: Ctx, need: str = "keep-offspring"):
    """R04.5 selection keeps the best evaluated offspring (need='keep-offspring', C04) / the best parent as well (need='keep-parents',
    C12); only the last pipeline operator evaluates; demes record the step result."""
    import copy

    from ..core import _Subst
    from . import replacement

    obs = []
    m = ctx.prog.own_method("BaseSEA", "select_new_population")
    sn = m.self_name()
    P, Oo = m.params()[1], m.params()[2]
    defs = local_defs(m)
    rets = [r for r in body_walk(m.node) if isinstance(r, ast.Return)]
    st, why = INCONCLUSIVE, "select_new_population returns nothing"
    raw = [o for o in c13.r13_1(ctx) if o.status == VIOLATION and o.subject.endswith("select_new_population")]
    # C12 asks that the best PARENT survives (what happens to the offspring is C04's concern)
    wanted = {Oo} if need == "keep-offspring" else {P}
    verdicts = []
    for r in rets:
        if r.value is None:
            verdicts.append((INCONCLUSIVE, "a bare return"))
            continue
        rv = _Subst(defs, 5).visit(copy.deepcopy(r.value))
        v = canon(rv)
        dom = _dom(rv, {P, Oo})
        size_bad = None
        if need == "keep-parents":
            # C12: the new population has exactly |P| rows: the outermost operation is topk(|P|)
            if isinstance(rv, ast.Call) and isinstance(rv.func, ast.Attribute) and rv.func.attr == "topk" and len(rv.args) == 1:
                sz = canon(rv.args[0])
                if sz not in (f"{P}.size", f"len({P})", f"{P}.genomes.shape[0]", f"len({P}.fitnesses)"):
                    size_bad = (VIOLATION if re.fullmatch(r"(" + re.escape(P) + r"\.size|len\(" + re.escape(P) + r"\))([-+*/].*)?|\d+|" + re.escape(Oo) + r"\.size", sz) else INCONCLUSIVE, f"select_new_population keeps `{norm(rv.args[0])}` individuals instead of the parents' population size")
            elif dom is not None:
                size_bad = (INCONCLUSIVE, f"cannot tell how many individuals `{v[:80]}` has")
        if dom is not None and wanted <= dom and size_bad is not None:
            verdicts.append(size_bad)
        elif dom is not None and wanted <= dom:
            verdicts.append((OK, ""))
        elif dom is not None:
            missing = sorted(wanted - dom)
            verdicts.append((VIOLATION, f"select_new_population returns `{v[:100]}`: the best of `{', '.join(missing)}` is not guaranteed to survive ({'an evaluated offspring better than everything recorded can be lost' if Oo in missing else 'the elites are not carried over: the best fitness can get worse'})"))
        elif raw:
            verdicts.append((VIOLATION, f"select_new_population selects with a raw, direction-unaware operation on fitness values ({raw[0].detail[:120]}): in one optimisation direction the best individuals are the ones dropped"))
        else:
            verdicts.append((INCONCLUSIVE, f"cannot interpret `{v[:100]}` in the merge / topk algebra"))
    for want_st in (VIOLATION, INCONCLUSIVE, OK):
        hit = [x for x in verdicts if x[0] == want_st]
        if hit:
            st, why = hit[0]
            break
    obs.append(ctx.ob("R04.5", m, rets[0] if rets else m.node, status=st, detail=("new population = best of (offspring + elites): the best evaluated offspring survives" if need == "keep-offspring" else "new population = best |P| of (all offspring + k best parents): the elites survive") if st == OK else why, construct="sea-selection"))
    run = ctx.prog.own_method("BaseSEA", "run")
    rdefs = local_defs(run)
    rets = [r for r in body_walk(run.node) if isinstance(r, ast.Return)]
    v = rets[0].value if len(rets) == 1 else None
    sel = v.func.value if isinstance(v, ast.Call) and isinstance(v.func, ast.Attribute) and v.func.attr == "to_individuals" and isinstance(v.func.value, ast.Call) else None
    ok = sel is not None and norm(sel.func) == f"{run.self_name()}.select_new_population" and len(sel.args) == 2 and all(isinstance(a, ast.Name) for a in sel.args) and not sel.keywords
    Pn, On = (sel.args[0].id, sel.args[1].id) if ok else (None, None)
    if ok:
        pd = rdefs.get(Pn, [])
        run_params = [p_ for p_ in run.params() if p_ != run.self_name()]
        ok = len(pd) == 1 and isinstance(pd[0], ast.Call) and norm(pd[0].func) == "Population.from_individuals" and len(pd[0].args) == 1 and run_params and norm(pd[0].args[0]) == run_params[0]
    obs.append(ctx.ob("R04.5", run, rets[0] if rets else run.node, status=OK if ok else INCONCLUSIVE, detail="run() returns the selection of (parents, final offspring)" if ok else f"BaseSEA.run returns `{norm(v)[:80] if v is not None else '?'}`", construct="sea-run"))
    # pipeline loop threads the offspring through every operator
    loops = [n for n in run.node.body if isinstance(n, ast.For)]
    okl = bool(ok) and len(loops) == 1 and canon(loops[0].iter) == f"{run.self_name()}.variational_operators_pipeline" and len(loops[0].body) == 1 and isinstance(loops[0].body[0], ast.Assign) and canon(loops[0].body[0]) == f"{On}={norm(loops[0].target)}({On})"
    if okl:
        od = [d for d in rdefs.get(On, []) if d is not loops[0].body[0].value]
        okl = len(od) == 1 and canon(od[0]) in (f"{Pn}.copy()", f"copy.deepcopy({Pn})")
    obs.append(ctx.ob("R04.5", run, loops[0] if loops else run.node, status=OK if okl else INCONCLUSIVE, detail="every operator is applied in order to the running offspring" if okl else "the operator pipeline is not applied in order to one running offspring population", construct="sea-pipeline-loop"))
    # only the last operator evaluates
    summ = c02.operator_summaries(ctx)
    for ci in ctx.prog.subclasses(ctx.prog.cls("BaseSEA")):
        cr = ci.methods.get("create")
        if cr is None:
            continue
        for c in body_walk(cr.node):
            if isinstance(c, ast.Call):
                L = next((k.value for k in c.keywords if k.arg == "variational_operators_pipeline" and isinstance(k.value, ast.List)), None)
                if L is None:
                    continue
                bad = []
                for el in L.elts[:-1]:
                    c2 = ctx.prog.resolve_class_expr(el.func, cr.module) if isinstance(el, ast.Call) else None
                    s = summ.get(c2.name) if c2 else None
                    if s is None:
                        continue
                    ev = s["evaluates"]
                    if ev == "conditional":
                        flag = next((k.value for k in el.keywords if k.arg == "evaluate_fitness"), None)
                        ev = ("always" if flag.value else "never") if isinstance(flag, ast.Constant) else "conditional"
                    if ev != "never":
                        bad.append(c2.name)
                obs.append(ctx.ob("R04.5", cr, L, status=OK if not bad else VIOLATION, detail=f"{ci.name}: only the last operator evaluates" if not bad else f"{ci.name}: intermediate operator(s) {bad} evaluate the objective; those points are then mutated away without ever being recorded, so the reported best can be worse than the best value observed", construct=f"{ci.name}:intermediate-eval"))
    # DE / SHADE slot-wise replacement (three-valued mask semantics, rules/replacement.py)
    obs.extend(replacement.obligations(ctx, "R04.5", "keep-better" if need == "keep-offspring" else "never-worse"))
    return obs


def _is_presence_test(u, par) -> bool:
    """The name is only tested for presence / truth: up through not / and / or / `is (not) None` to the test of an if,
    conditional expression, while or assert."""
    q, child = par.get(id(u)), u
    hops = 0
    while q is not None and hops < 6:
        if isinstance(q, (ast.If, ast.IfExp, ast.While, ast.Assert)):
            return q.test is child
        if isinstance(q, ast.UnaryOp) and isinstance(q.op, ast.Not):
            pass
        elif isinstance(q, ast.BoolOp):
            pass
        elif isinstance(q, ast.Compare) and len(q.ops) == 1 and isinstance(q.ops[0], (ast.Is, ast.IsNot, ast.Eq, ast.NotEq)) and all(isinstance(c, ast.Constant) and c.value is None for c in q.comparators):
            pass
        else:
            return False
        q, child = par.get(id(q)), q
        hops += 1
    return False


def r04_6(ctx: Ctx):
    """R04.6 in minimize() `maxfun` flows only into the cutoff wrapper and the stop condition; `seed` only into options['random_seed']."""
    f = ctx.prog.func("pyhms.hms", "minimize")
    par = parents_map(f.node)
    obs = []
    for pname, allowed_desc in (("maxfun", "cutoff / stop condition / presence tests"), ("seed", "options['random_seed']")):
        uses = [n for n in body_walk(f.node) if isinstance(n, ast.Name) and n.id == pname and isinstance(n.ctx, ast.Load)]
        if not uses:
            raise AnalysisError(f"minimize() does not use `{pname}`")
        for u in uses:
            p = par.get(id(u))
            ok = False
            where = norm(p)[:70] if p is not None else "?"
            if pname == "maxfun":
                # through max / min / int / arithmetic the value may still only end up as the cutoff
                q, hops = p, 0
                while isinstance(q, (ast.Call, ast.BinOp)) and hops < 4 and (not isinstance(q, ast.Call) or norm(q.func) in ("max", "min", "int")):
                    q = par.get(id(q))
                    hops += 1
                if hops and isinstance(q, ast.keyword) and q.arg == "eval_cutoff":
                    ok = True
                elif hops and isinstance(q, ast.Call) and norm(q.func) in ("EvalCutoffProblem",):
                    ok = True
                if ok:
                    pass
                elif _is_presence_test(u, par):
                    ok = True
                elif isinstance(p, ast.Compare) and all(isinstance(c, ast.Constant) and c.value is None for c in p.comparators):
                    ok = True
                elif isinstance(p, ast.IfExp) and p.test is u:
                    ok = True
                elif isinstance(p, (ast.BoolOp, ast.If)) :
                    ok = True
                elif isinstance(p, ast.keyword) and p.arg == "eval_cutoff":
                    ok = True
                elif isinstance(p, ast.Call) and norm(p.func) in ("SingularProblemEvalLimitReached", "EvalCutoffProblem", "FitnessEvalLimitReached") and u in p.args:
                    ok = True
            else:
                if isinstance(p, ast.Dict):
                    idx = [i for i, v in enumerate(p.values) if v is u]
                    ok = bool(idx) and isinstance(p.keys[idx[0]], ast.Constant) and p.keys[idx[0]].value == "random_seed"
            definite = False
            if not ok:
                # positive evidence: the value reaches the configuration of the search (a level config, a default-size helper)
                q = p
                hops = 0
                while q is not None and hops < 8:
                    if isinstance(q, ast.Call) and (norm(q.func).endswith("LevelConfig") or norm(q.func).startswith("get_default_") or norm(q.func) in ("np.random.seed", "random.seed")):
                        definite = True
                    q = par.get(id(q))
                    hops += 1
            obs.append(ctx.ob("R04.6", f, u, status=OK if ok else VIOLATION if definite else INCONCLUSIVE, detail=f"`{pname}` used for {allowed_desc}" if ok else f"`{pname}` flows into `{where}`: the search itself (population sizes, generations, operators) depends on the budget / seed in an undeclared way, so a larger budget no longer replays the same evaluations as a prefix", construct=f"{pname}@{where}"))
    # the default budget assignment
    for n in body_walk(f.node):
        if isinstance(n, ast.Assign) and any(isinstance(t, ast.Name) and t.id == "maxfun" for t in n.targets):
            ok = isinstance(n.value, (ast.Name, ast.Constant))
            obs.append(ctx.ob("R04.6", f, n, status=OK if ok else VIOLATION, detail="default budget constant" if ok else f"`{norm(n)}` rewrites the budget"))
    return obs


def r04_7(ctx: Ctx):
    """R04.7 every generation a deme evaluates is recorded: on every path from the evaluation of a population to the end of the step / the next evaluation, that population is appended to the metaepoch's generation list (typestate per deme step)."""
    from ..cfg import typestate, witness_path
    from .common import is_history_append, node_has_effect

    obs = []
    n = 0
    for ci in ctx.concrete_demes():
        f = __import__("hmslint.rules.common", fromlist=["step_method"]).step_method(ctx, ci)
        if f is None:
            continue
        sn = f.self_name() or "self"
        cfg = ctx.cfg(f)
        # populations evaluated in this function: X in evaluate_population(X), or X = <call with an evaluation effect> (engine step)
        def evaluated_name(nd):
            if nd.ast is None or nd.kind != "stmt":
                return None
            a = nd.ast
            if isinstance(a, ast.Expr) and isinstance(a.value, ast.Call) and norm(a.value.func).endswith("evaluate_population") and a.value.args and isinstance(a.value.args[0], ast.Name):
                return a.value.args[0].id
            if isinstance(a, ast.Assign) and len(a.targets) == 1 and isinstance(a.targets[0], ast.Name) and isinstance(a.value, ast.Call) and node_has_effect(ctx, f, nd, "EVAL") and not norm(a.value.func).startswith(("sopt.", "scipy.")):
                return a.targets[0].id
            return None

        ev_nodes = {nd.id: evaluated_name(nd) for nd in cfg.nodes if evaluated_name(nd)}
        if not ev_nodes:
            continue
        n += 1
        viol = []

        def recorded(nd, name):
            if nd.ast is None:
                return False
            for c in ast.walk(nd.ast):
                if isinstance(c, ast.Call) and isinstance(c.func, ast.Attribute) and c.func.attr in ("append", "extend") and c.args and any(isinstance(x, ast.Name) and x.id == name for x in ast.walk(c.args[0])):
                    return True
            return False

        def node_fn(nd, st):
            # st: None (nothing pending) or a frozenset of names denoting the one evaluated-but-unrecorded population
            if st is not None and nd.id in ev_nodes and ev_nodes[nd.id] not in st:
                viol.append((nd, st, "the next population is evaluated"))
            if nd.id in ev_nodes:
                return [frozenset({ev_nodes[nd.id]})]
            if st is not None and any(recorded(nd, nm) for nm in st):
                return [None]
            if st is not None and nd.kind == "stmt" and isinstance(nd.ast, ast.Assign) and len(nd.ast.targets) == 1 and isinstance(nd.ast.targets[0], ast.Name):
                tgt = nd.ast.targets[0].id
                if isinstance(nd.ast.value, ast.Name) and nd.ast.value.id in st:
                    return [frozenset(st | {tgt})]  # alias (parents = offspring)
                if tgt in st and len(st) > 1:
                    return [frozenset(st - {tgt})]
            return [st]

        at, exits, parent = typestate(cfg, [None], node_fn)
        pending_exit = [s_ for s_ in exits if s_ is not None]
        # a renamed carrier (parents = offspring) that is already recorded under the old name is fine: only report names never recorded
        if viol or pending_exit:
            nm = "/".join(sorted(viol[0][1] if viol else pending_exit[0]))
            wnode = viol[0][0] if viol else cfg.exit
            from .common import opaque_step_helpers

            obs.append(ctx.ob("R04.7", f, wnode.stmt if wnode.stmt is not None else f.node, status=INCONCLUSIVE if opaque_step_helpers(ctx, f) else VIOLATION, detail=f"{ci.name}: on some path the evaluated population `{nm}` is not appended to the metaepoch's generations before {'the step returns' if not viol else viol[0][2]}: its individuals were evaluated but are missing from the history, so the reported best can be worse than a value the objective returned", witness=witness_path(cfg, parent, wnode.id, viol[0][1] if viol else pending_exit[0]), construct=f"{ci.name}:{nm}"))
        else:
            obs.append(ctx.ob("R04.7", f, f.node, detail=f"{ci.name}: every evaluated population is recorded on every path", construct=f"{ci.name}:recorded"))
    if n < 3:
        raise AnalysisError(f"only {n} deme steps with an evaluated population found")
    return obs


def r04_8(ctx: Ctx):
    """R04.8 objective values are never kept in state shared between problems: a fitness cache that several problems write to hands one problem the values another problem's objective returned, so a kept fitness need not be a value of this objective."""
    from . import c02

    out = []
    for o in c02.r02_11(ctx):
        o.rule = "R04.8"
        out.append(o)
    return out


def r04_9(ctx: Ctx):
    """R04.9 an individual's fitness is a value of ITS objective in ITS sign: none is created with the sprout seed's fitness
    (another level's objective) or with the sign-adapted value prepared for a minimiser (R02.12) - such a value was never
    observed, so the reported best is not the best value the objective returned."""
    out = []
    for o in c02.r02_12(ctx):
        if o.status != OK and ".LocalDeme." in "." + (o.subject or ""):
            # the property exempts the local optimiser from "the reported best equals the best value observed"
            o.rule, o.status, o.detail, o.trivial = "R04.9", OK, "LocalDeme's recorded values are outside this property (C02 / C13 decide them)", True
            out.append(o)
            continue
        o.rule = "R04.9"
        out.append(o)
    return out


RULES = [
    ("R04.1", r04_1, 4),
    ("R04.2", r04_2, 14),
    ("R04.3", r04_3, 6),
    ("R04.4", r04_4_c04, 1),
    ("R04.5", r04_5, 8),
    ("R04.6", r04_6, 5),
    ("R04.7", r04_7, 3),
    ("R04.8", r04_8, 1),
    ("R04.9", r04_9, 1),
]
