"""C20 — reports agree with the tree, and looking at a tree does not change it."""
from __future__ import annotations

import ast

from ..core import INCONCLUSIVE, OK, VIOLATION, Ctx, is_self_attr
from ..model import AnalysisError, body_walk, norm

CLAIM = """Decides the purity clause for all reachable trees at once: every reporting/query accessor (summary, tree, all
@property members of DemeTree and of every deme class, the print_tree formatters, R5S selection) has a transitive effect
summary free of objective evaluation, random draws, (re)seeding, clock/entropy reads and writes to attributes, globals,
parameters or aliased containers — so calling it twice gives the same answer and changes nothing; and decides the marker
clause structurally: the `***` / highlight condition compares the deme's best fitness with the global best using `==` and
tests optionality with `is None`, never by truthiness of a fitness value (the pinned defect hid the marker at 0.0); tree()
passes the tree's best fitness to both the root line and the children; children are rendered recursively and only demes
with metaepoch_count == 0 are omitted. (R20.5) the best the reports print is the best of the recorded histories (R04.1); in-place `+=` through an alias of a history element is a write. Round 5: the header totals are not running sums built inside an optional part of the report; the level's candidates for its best are filtered only by `has a best individual`, never by the fitness value."""
NOTE = """That the numbers rendered into the strings equal the accessors' values (label <-> accessor agreement) is not
claimed: matching format strings would be a frozen-text proxy. The NaN tie-break draw in FunctionProblem.worse_than is
tabled (reachable only when both fitness values are NaN)."""
TECHNIQUE = "transitive effect summaries over the resolved call graph (purity) + truthiness/polarity lint on fitness-kind expressions (ast)"
EXPLANATION = """
R20.1 enumerates the accessor functions (>= 40) and requires their transitive effect sets (computed bottom-up over resolved
callees, property reads and comparison dunders included) to contain none of EVAL, RNG, SEED, WRITE, GLOBALWRITE, PARAMMUT,
CLOCK, ENTROPY, IO; unresolved calls make the verdict inconclusive. R20.2 flags any truthiness use (operand of and/or/not,
if/IfExp/while test) of a fitness-kind expression (name containing `fitness`, attribute `.fitness`) in the reporting
modules and checks the marker comparison. R20.3 checks the shape of tree() and of the recursive children renderer.
"""
ASSUMPTIONS = ["effect table of external callees (numpy, builtins, graphviz are effect-free for this purpose)"]

BAD = {"EVAL", "RNG", "SEED", "WRITE", "GLOBALWRITE", "PARAMMUT", "CLOCK", "ENTROPY", "IO"}


def _subjects(ctx: Ctx):
    P = ctx.prog
    out = []
    tree = P.cls("DemeTree")
    for name, m in tree.methods.items():
        if m.is_property or name in ("summary", "tree"):
            out.append(m)
    base = P.cls("AbstractDeme")
    for ci in [base] + P.subclasses(base):
        for name, m in ci.methods.items():
            if m.is_property or name in ("__str__",):
                out.append(m)
    pt = P.modules.get("pyhms.utils.print_tree")
    if pt is None:
        raise AnalysisError("pyhms.utils.print_tree vanished")
    for name in ("format_array", "format_deme", "format_deme_children_tree"):
        if name not in pt.functions:
            raise AnalysisError(f"print_tree.{name} vanished")
        out.append(pt.functions[name])
    out.append(P.own_method("R5SSelection", "__call__"))
    return out


def r20_1(ctx: Ctx):
    """R20.1 purity of every reporting / query accessor (transitive effects)."""
    obs = []
    for m in _subjects(ctx):
        effs = ctx.eff.of(m)
        bad = sorted(e for e in effs if e[0] in BAD)
        unk = sorted(e for e in effs if e[0] == "UNKNOWN")
        if bad:
            e = bad[0]
            obs.append(ctx.ob("R20.1", m, m.node, status=VIOLATION, detail=f"accessor {m.short} is not pure: {e[0]} {e[1]}", witness=ctx.eff.chain(m, e), construct=f"{m.short}:{e[0]}"))
        elif unk:
            obs.append(ctx.ob("R20.1", m, m.node, status=INCONCLUSIVE, detail=f"accessor {m.short} reaches an unresolved call `{unk[0][1]}`", construct=f"{m.short}:unknown"))
        else:
            obs.append(ctx.ob("R20.1", m, m.node, detail="transitive effects: " + (", ".join(sorted({e[0] for e in effs})) or "none"), construct=m.short))
    return obs


def _fitness_kind(e: ast.AST) -> bool:
    if isinstance(e, ast.Name):
        return "fitness" in e.id.lower()
    if isinstance(e, ast.Attribute):
        return e.attr == "fitness" or "fitness" in e.attr.lower() and not e.attr.startswith("best_fitness_by")
    return False


def _truthiness_uses(fn_node):
    out = []
    for n in ast.walk(fn_node):
        tests = []
        if isinstance(n, (ast.If, ast.IfExp, ast.While)):
            tests.append(n.test)
        elif isinstance(n, ast.Assert):
            tests.append(n.test)
        elif isinstance(n, ast.BoolOp):
            tests.extend(n.values)
        elif isinstance(n, ast.UnaryOp) and isinstance(n.op, ast.Not):
            tests.append(n.operand)
        elif isinstance(n, ast.comprehension):
            tests.extend(n.ifs)
        elif isinstance(n, ast.Call) and norm(n.func) == "bool" and n.args:
            tests.append(n.args[0])
        for t in tests:
            if _fitness_kind(t):
                out.append(t)
    return out


def r20_2(ctx: Ctx):
    """R20.2 the best-marker condition does not depend on the truthiness of a fitness value and compares with `==`."""
    obs = []
    pt = ctx.prog.modules["pyhms.utils.print_tree"]
    fns = list(pt.functions.values()) + [ctx.prog.own_method("DemeTree", "summary"), ctx.prog.own_method("DemeTree", "tree")]
    for f in fns:
        for g in [f] + list(f.nested.values()):
            uses = _truthiness_uses(g.node)
            seen = set()
            for u in uses:
                if id(u) in seen:
                    continue
                seen.add(id(u))
                obs.append(ctx.ob("R20.2", g, u, status=VIOLATION, detail=f"`{norm(u)}` is tested for truthiness: a fitness of exactly 0.0 counts as absent (the best marker / highlight disappears when the best fitness is 0.0)"))
    # the marker comparison itself
    for fname in ("format_deme", "get_node_attributes"):
        f = pt.functions.get(fname)
        if f is None:
            raise AnalysisError(f"print_tree.{fname} vanished")
        params = f.params()
        cmps = [c for c in ast.walk(f.node) if isinstance(c, ast.Compare) and len(c.ops) == 1 and any(isinstance(x, ast.Name) and x.id == params[1] for x in ast.walk(c)) and any(isinstance(x, ast.Attribute) and x.attr == "fitness" for x in ast.walk(c))]
        if not cmps:
            obs.append(ctx.ob("R20.2", f, f.node, status=VIOLATION, detail=f"{fname} no longer compares the deme's best fitness with the global best", construct=f"{fname}:marker-cmp"))
            continue
        for c in cmps:
            ok = isinstance(c.ops[0], ast.Eq) and {norm(c.left), norm(c.comparators[0])} == {f"{params[0]}.best_individual.fitness", params[1]}
            obs.append(ctx.ob("R20.2", f, c, status=OK if ok else VIOLATION, detail="marker iff deme.best_individual.fitness == global best" if ok else f"marker condition is `{norm(c)}`, not equality between the deme's best fitness and the global best"))
        # optionality test uses `is None` / `is not None`
        opt = [c for c in ast.walk(f.node) if isinstance(c, ast.Compare) and len(c.ops) == 1 and isinstance(c.ops[0], (ast.Is, ast.IsNot)) and isinstance(c.left, ast.Name) and c.left.id == params[1]]
        obs.append(ctx.ob("R20.2", f, opt[0] if opt else f.node, status=OK, detail="optionality of the global best tested with `is (not) None`" if opt else "no optionality test on the global best", construct=f"{fname}:optional", trivial=not opt))
    return obs


def r20_3(ctx: Ctx):
    """R20.3 tree() passes the tree's best fitness to the root line and to the children renderer; children are rendered recursively, omitting only demes that never ran."""
    obs = []
    t = ctx.prog.own_method("DemeTree", "tree")
    sn = t.self_name()
    calls = {norm(c.func): c for c in body_walk(t.node) if isinstance(c, ast.Call) and norm(c.func) in ("format_deme", "format_deme_children_tree")}
    for name in ("format_deme", "format_deme_children_tree"):
        c = calls.get(name)
        if c is None:
            obs.append(ctx.ob("R20.3", t, t.node, status=VIOLATION, detail=f"tree() no longer calls {name}", construct=name))
            continue
        from ..core import canon, local_defs

        tdefs = local_defs(t)
        args = [canon(a, tdefs) for a in c.args] + [canon(k.value, tdefs) for k in c.keywords]
        ok = any(a in (f"{sn}.root", f"{sn}.levels[0][0]", f"{sn}._levels[0][0]") for a in args) and f"{sn}.best_individual.fitness" in args
        other_best = [a for a in args if a.endswith(".fitness") and a != f"{sn}.best_individual.fitness"]
        obs.append(ctx.ob("R20.3", t, c, status=OK if ok else VIOLATION if other_best else INCONCLUSIVE, detail=f"{name}(root, best fitness of the whole tree)" if ok else f"{name} is called with ({', '.join(args)}); expected the root and {sn}.best_individual.fitness"))
    f = ctx.prog.modules["pyhms.utils.print_tree"].functions["format_deme_children_tree"]
    ps = f.params()
    loops = [n for n in body_walk(f.node) if isinstance(n, ast.For)]
    ok_loop = len(loops) == 1 and norm(loops[0].iter) == f"{ps[0]}.children" and isinstance(loops[0].target, ast.Name)
    # positive evidence of a wrong walk: one loop, over a part / another attribute of the deme; any other structure (several
    # loops, an explicit stack instead of recursion) is outside what this rule follows
    partial = len(loops) == 1 and isinstance(loops[0].iter, (ast.Subscript, ast.Attribute)) and norm(loops[0].iter).startswith(f"{ps[0]}.") and norm(loops[0].iter) != f"{ps[0]}.children"
    delegates = any(isinstance(c, ast.Call) and isinstance(c.func, ast.Name) and c.func.id.startswith("_") for c in body_walk(f.node))
    obs.append(ctx.ob("R20.3", f, loops[0] if loops else f.node, status=OK if ok_loop else VIOLATION if (partial or (not loops and not delegates)) else INCONCLUSIVE, detail="one loop over deme.children" if ok_loop else "children renderer does not iterate deme.children" if (partial or (not loops and not delegates)) else "cannot follow how the children renderer walks the tree", construct="children-loop"))
    if ok_loop:
        child = loops[0].target.id
        # normalised form: `if child.metaepoch_count != 0: <render>` (the early `continue` is inverted into this guard)
        fd0 = [c for c in ast.walk(loops[0]) if isinstance(c, ast.Call) and norm(c.func) == "format_deme"]
        guards = [n for n in loops[0].body if isinstance(n, ast.If) and fd0 and any(x is fd0[0] for x in ast.walk(n))]
        if not guards:
            obs.append(ctx.ob("R20.3", f, loops[0], status=VIOLATION, detail="demes that never ran are no longer omitted from the tree", construct="skip"))
        else:
            t = norm(guards[0].test).replace(" ", "")
            ok_skip = len(guards) == 1 and not guards[0].orelse and t in (f"{child}.metaepoch_count!=0", f"0!={child}.metaepoch_count", f"{child}.metaepoch_count>0", f"{child}.metaepoch_count", f"not{child}.metaepoch_count==0")
            obs.append(ctx.ob("R20.3", f, guards[0], status=OK if ok_skip else VIOLATION, detail="only children with metaepoch_count == 0 are omitted" if ok_skip else f"children are rendered only under `{norm(guards[0].test)}` (must be exactly metaepoch_count != 0)", construct="skip"))
        rec = [c for c in ast.walk(loops[0]) if isinstance(c, ast.Call) and norm(c.func) == "format_deme_children_tree"]
        fd = [c for c in ast.walk(loops[0]) if isinstance(c, ast.Call) and norm(c.func) == "format_deme"]
        ok_rec = len(rec) == 1 and rec[0].args and norm(rec[0].args[0]) == child and any(norm(k.value) == ps[2] for k in rec[0].keywords if k.arg == ps[2]) or (len(rec) == 1 and len(rec[0].args) >= 3 and norm(rec[0].args[2]) == ps[2] and norm(rec[0].args[0]) == child)
        ok_fd = len(fd) == 1 and [norm(a) for a in fd[0].args] + [norm(k.value) for k in fd[0].keywords] == [child, ps[2]]
        if not ok_fd and len(fd) == 1 and not any(isinstance(a, ast.Starred) for a in fd[0].args) and all(k.arg for k in fd[0].keywords):
            # further (optional) parameters of format_deme may be passed along: what matters is which deme and which best fitness
            fdf = ctx.prog.modules["pyhms.utils.print_tree"].functions["format_deme"]
            fp = fdf.params()
            bound = dict(zip(fp, fd[0].args))
            bound.update({k.arg: k.value for k in fd[0].keywords})
            ok_fd = len(fp) >= 2 and fp[0] in bound and norm(bound[fp[0]]) == child and fp[1] in bound and norm(bound[fp[1]]) == ps[2]
        obs.append(ctx.ob("R20.3", f, rec[0] if rec else loops[0], status=OK if ok_rec else VIOLATION, detail="recursion on the child with the same best fitness" if ok_rec else "the children renderer does not recurse on each child with the global best fitness", construct="recursion"))
        obs.append(ctx.ob("R20.3", f, fd[0] if fd else loops[0], status=OK if ok_fd else VIOLATION, detail="each displayed child formatted with the global best fitness" if ok_fd else "children lines are not produced by format_deme(child, best_fitness)", construct="child-line"))
    return obs


def _interpolated(fn_node):
    out = []
    for n in ast.walk(fn_node):
        if isinstance(n, ast.FormattedValue):
            out.append(n.value)
    return out


def r20_4(ctx: Ctx):
    """R20.4 the report's figures are read from the tree's / deme's own accessors (metaepoch count, totals, deme count, best, per-level sums; per-deme evaluation count)."""
    from ..core import canon, local_defs

    obs = []
    s = ctx.prog.own_method("DemeTree", "summary")
    sn = s.self_name()
    defs = local_defs(s)
    # interpolations of summary() and of the private helpers of the class it calls (e.g. a per-level block)
    sources = [(s, defs)]
    seen_h = {s.qualname}
    todo = [s]
    while todo:
        g = todo.pop()
        for c in body_walk(g.node):
            if isinstance(c, ast.Call) and isinstance(c.func, ast.Attribute) and isinstance(c.func.value, ast.Name) and c.func.value.id == g.self_name() and c.func.attr.startswith("_") and s.cls is not None:
                h = ctx.prog.lookup_method(s.cls, c.func.attr)
                if h is not None and h.qualname not in seen_h:
                    seen_h.add(h.qualname)
                    sources.append((h, local_defs(h)))
                    todo.append(h)
    vals = set()
    labelled = []  # (literal text before the value, value text)
    for g, gd in sources:
        sub = {k: v for k, v in gd.items()}
        for js in ast.walk(g.node):
            if isinstance(js, ast.JoinedStr):
                prev = ""
                for part in js.values:
                    if isinstance(part, ast.Constant) and isinstance(part.value, str):
                        prev = part.value
                    elif isinstance(part, ast.FormattedValue):
                        vt = canon(part.value, sub).replace(f"{g.self_name()}.", f"{sn}.") if g.self_name() != sn else canon(part.value, sub)
                        vals.add(vt)
                        labelled.append((prev.strip().lower(), vt))
    LABELS = {"metaepoch count": "metaepoch count", "total evaluations": "number of evaluations", "number of demes": "number of demes", "best fitness": "best fitness", "best genome": "best individual"}
    need = {
        "metaepoch count": [f"{sn}.metaepoch_count"],
        "total evaluations": [f"{sn}.n_evaluations"],
        "number of demes": [f"len({sn}.all_demes)"],
        "best fitness": [f"{sn}.best_individual.fitness"],
        "best genome": [f"{sn}.best_individual.genome"],
    }
    for what, alts in need.items():
        ok = any(a in vals for a in alts)
        # positive evidence: the line carrying this label interpolates something else
        relabelled = [v for lab, v in labelled if lab.startswith(LABELS[what]) and v not in alts and not v.startswith(("level", "len(level", "sum(")) and f"{sn}." in v]
        wrong = not ok and bool(relabelled)
        why_acc = None
        if not ok and not wrong and what in ("total evaluations", "number of demes"):
            # the figure is a running total built inside an optional part of the report: with that part switched off the header
            # prints the initial constant
            from ..core import parents_map

            par = parents_map(s.node)
            for lab, v in labelled:
                if not (lab.startswith(LABELS[what]) and v.isidentifier() and v in defs):
                    continue
                ds = defs[v]
                augs = [d_ for d_ in ds if isinstance(d_, ast.AugAssign)]
                inits = [d_ for d_ in ds if isinstance(d_, ast.Constant)]
                if not augs or len(inits) + len(augs) != len(ds):
                    continue
                gates = []
                for a_ in augs:
                    q, gate = a_, None
                    while q is not None and q is not s.node:
                        p_ = par.get(id(q))
                        if isinstance(p_, ast.If) and any(isinstance(x, ast.Name) and x.id in s.params() for x in ast.walk(p_.test)) and not any(q is o_ for o_ in p_.orelse):
                            gate = p_
                        q = p_
                    gates.append(gate)
                if all(g_ is not None for g_ in gates):
                    why_acc = f"summary() prints the {what} from the running total `{v}`, which is only accumulated under `if {norm(gates[0].test)}`: called with that option off, the header reports {norm(inits[0]) if inits else 'the initial value'} instead of `{alts[0]}`"
            wrong = why_acc is not None
        obs.append(ctx.ob("R20.4", s, s.node, status=OK if ok else VIOLATION if wrong else INCONCLUSIVE, detail=f"summary reports the {what} from {alts[0]}" if ok else why_acc if why_acc else f"summary() no longer reports the {what} from `{alts[0]}` (interpolated values: {sorted(v for v in vals if len(v) < 60)[:12]})", construct=f"summary:{what}"))
    # per-level figures: sum(d.n_evaluations for d in <level list>) and len(<same list>)
    import re

    sums = [re.fullmatch(r"sum\(\(?\[?(\w+)\.n_evaluationsfor\1in(\w+)\]?\)?\)", v) for v in vals]
    sums = [m for m in sums if m]
    ok = bool(sums)
    obs.append(ctx.ob("R20.4", s, s.node, status=OK if ok else INCONCLUSIVE, detail="per-level evaluation total = sum of the level's demes' counters" if ok else "summary() no longer reports a per-level sum of deme.n_evaluations", construct="summary:level evaluations"))
    if ok:
        lst = sums[0].group(2)
        ok2 = f"len({lst})" in vals
        obs.append(ctx.ob("R20.4", s, s.node, status=OK if ok2 else INCONCLUSIVE, detail=f"per-level deme count = len({lst})" if ok2 else f"summary() does not report the level's deme count as len({lst})", construct="summary:level deme count"))
    # the level block (its evaluation and deme counts included) is printed when the level has a best individual: the candidates
    # are the bests of ALL the level's demes that have one; a further test on the fitness VALUE empties the list for a level
    # whose bests are all inf / NaN, and the level is then reported as having no demes
    for g, gd in sources:
        for comp in ast.walk(g.node):
            if isinstance(comp, (ast.ListComp, ast.GeneratorExp)) and len(comp.generators) == 1 and isinstance(comp.elt, ast.Attribute) and comp.elt.attr == "best_individual" and isinstance(comp.generators[0].target, ast.Name):
                dv = comp.generators[0].target.id
                conds = []
                for c_ in comp.generators[0].ifs:
                    conds += c_.values if isinstance(c_, ast.BoolOp) and isinstance(c_.op, ast.And) else [c_]
                plain = lambda c_: norm(c_) in (f"{dv}.best_individual", f"{dv}.best_individual is not None", f"{dv}.best_individual != None")
                onval = [c_ for c_ in conds if not plain(c_) and any(isinstance(x, ast.Attribute) and x.attr in ("fitness", "genome") for x in ast.walk(c_))]
                other = [c_ for c_ in conds if not plain(c_) and c_ not in onval]
                obs.append(ctx.ob("R20.4", g, comp, status=VIOLATION if onval else INCONCLUSIVE if other else OK, detail=f"the level's best is drawn from every deme that has one" if not (onval or other) else f"the level's candidates are filtered by `{norm((onval or other)[0])[:70]}`: a level whose demes' bests all fail that test is reported as 'No demes available.' and its evaluation and deme counts are not printed although the demes exist and have evaluated" if onval else f"cannot tell what `{norm(other[0])[:60]}` removes from the level's candidates", construct="summary:level candidates"))
    fd = ctx.prog.modules["pyhms.utils.print_tree"].functions["format_deme"]
    d = fd.params()[0]
    fdefs = local_defs(fd)
    fvals = {canon(v, fdefs) for v in _interpolated(fd.node)}
    # values may be pre-formatted into locals that are then interpolated: expand one level
    expanded = set(fvals)
    for name, ds in fdefs.items():
        for dd in ds:
            for v in _interpolated(dd) if not isinstance(dd, ast.AugAssign) else []:
                expanded.add(canon(v, fdefs))
    for what, txt in {"evaluation count": f"{d}.n_evaluations", "best fitness": f"{d}.best_individual.fitness"}.items():
        ok = txt in expanded
        obs.append(ctx.ob("R20.4", fd, fd.node, status=OK if ok else INCONCLUSIVE, detail=f"deme line carries the deme's {what} ({txt})" if ok else f"format_deme no longer renders the deme's {what} from `{txt}`", construct=f"format_deme:{what}"))
    return obs


def r20_5(ctx: Ctx):
    """R20.5 the best fitness the reports print (header, level blocks, deme lines, the *** marker) is the best of the recorded
    histories: the best accessors of the tree and of every deme class are the maximum over the complete history and no deme
    class overrides them (R04.1)."""
    from . import c04

    out = []
    for o in c04.r04_1(ctx):
        o.rule = "R20.5"
        out.append(o)
    return out


RULES = [("R20.1", r20_1, 40), ("R20.2", r20_2, 4), ("R20.3", r20_3, 5), ("R20.4", r20_4, 9), ("R20.5", r20_5, 3)]
