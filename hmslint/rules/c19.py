"""C19 — a tree can be snapshotted and restored at any metaepoch boundary (structural clauses)."""
from __future__ import annotations

import ast

from ..core import INCONCLUSIVE, OK, VIOLATION, Ctx, canon, is_self_attr, local_defs
from ..model import AnalysisError, body_walk, norm

CLAIM = """Decides the structural clauses: (R19.1) pickle_dump and pickle_load have transitive effect sets within {IO, LOG}: they store
nothing on the tree or its demes, draw no random numbers, evaluate nothing — so dumping alters neither the live tree nor the
random state; the whole tree object (self) is what is dumped and the loaded object is what is returned; (R19.2) the serializer
is dill (user objectives and the multiwinner utilities are lambdas, which the stdlib pickle rejects); (R19.3) no run state lives
outside the pickled object graph: nothing reachable from DemeTree.__init__ / run writes module-level or class-level state or
mutates a default-argument object (such state would be lost or shared across a restore); (R19.4) no class of the graph defines
__getstate__/__reduce__/__reduce_ex__/__setstate__/__slots__/__deepcopy__ that could drop attributes (each such method must
cover every attribute the class assigns); (R19.5) nothing unpicklable by construction (open files, generators, thread locks,
locally defined classes) is stored on the tree, demes, engines, problems or sprout mechanisms. Round-3/4 extensions: the NaN-tie coin flip counts as an effect of the snapshot operations; dill options that change what is captured (`recurse=True`). (R19.6) no attribute is a numpy view of another attribute written in place; (R19.7) no decision rests on the identity (`is`) of a float / string / number constant, which a snapshot stores by value; methods called on the loaded tree inside pickle_load count as effects of pickle_load (an evaluation of the objective there is reported first)."""
NOTE = """Equality of what dill restores (third-party objects: cma strategy, qmc samplers, structlog logger) and the behaviour of the
continued run are not decided; they rest on those libraries' own pickling support."""
TECHNIQUE = "transitive effect summaries (purity of dump/load), global/class-state write detection over the call graph, reducer-hook exhaustiveness"
EXPLANATION = """
R19.1/R19.3 read the effect summaries computed bottom-up over the resolved call graph. R19.4 enumerates reducer hooks in every
class of pyhms (0 on the current tree; the thorough tier keeps a positive control). R19.5 scans attribute stores in the classes
of the object graph for values built by open(), generator expressions, threading primitives or local class definitions.
"""
ASSUMPTIONS = ["dill serialises lambdas, closures and bound methods; cma / scipy qmc / structlog objects are picklable (external)"]


def _with_helpers(ctx, m):
    """AST nodes of a method and of the private helpers of its class that it calls (file handling moved into a helper)."""
    fns, todo = [m], [m]
    while todo:
        g = todo.pop()
        for cs in ctx.res.callsites(g):
            for t in cs.targets:
                if t.cls is m.cls and t.name.startswith("_") and not t.name.startswith("__") and t not in fns:
                    fns.append(t)
                    todo.append(t)
    return fns


def r19_1(ctx: Ctx):
    """R19.1 pickle_dump / pickle_load are effect-free on the tree and the RNGs; they dump self and return the loaded object."""
    obs = []
    for name in ("pickle_dump", "pickle_load"):
        m = ctx.prog.own_method("DemeTree", name)
        effs = set(ctx.eff.of(m))
        via = {}
        if name == "pickle_load":
            # the loaded object is a DemeTree: methods called on it are part of the operation
            ldefs = local_defs(m)
            loaded = {k for k, ds in ldefs.items() if any(isinstance(d_, ast.Call) and isinstance(d_.func, ast.Attribute) and d_.func.attr in ("load", "loads") for d_ in ds)}
            tree_cls = ctx.prog.cls("DemeTree")
            for c in body_walk(m.node):
                if isinstance(c, ast.Call) and isinstance(c.func, ast.Attribute) and isinstance(c.func.value, ast.Name) and c.func.value.id in loaded:
                    g = ctx.prog.lookup_method(tree_cls, c.func.attr)
                    if g is not None:
                        for e in ctx.eff.of(g):
                            if e not in effs:
                                effs.add(e)
                                via[e] = g
        # RNG-NANTIE: comparing two individuals whose fitness values are both NaN flips a coin on Python's global stream
        # (FunctionProblem.worse_than): a snapshot operation that orders individuals changes the global random state
        bad = sorted((e for e in effs if e[0] not in ("IO", "LOG")), key=lambda e: ({"EVAL": 0, "WRITE": 1, "RNG": 2, "RNG-NANTIE": 3, "SEED": 2}.get(e[0], 5 if e[0] != "UNKNOWN" else 9), e))
        if bad:
            e = bad[0]
            obs.append(ctx.ob("R19.1", m, m.node, status=VIOLATION if e[0] != "UNKNOWN" else INCONCLUSIVE, detail=f"DemeTree.{name} is not a pure snapshot operation: {e[0]} {e[1]}" + (f" (also: {', '.join(sorted({b[0] for b in bad[1:]}))})" if len(bad) > 1 else "") + (" - the objective is evaluated: the restored tree's evaluation counters / budget differ from the dumped ones, and an objective with side effects is run" if e[0] == "EVAL" else "") + (" (it compares individuals; a NaN-vs-NaN comparison draws from Python's global random stream, so dumping changes the random state of the live run)" if e[0] == "RNG-NANTIE" else ""), witness=([f"{m.short} calls {via[e].short} on the loaded tree"] + ctx.eff.chain(via[e], e)) if e in via else ctx.eff.chain(m, e), construct=f"{name}:{e[0]}"))
        else:
            obs.append(ctx.ob("R19.1", m, m.node, detail=f"{name}: effects {sorted({e[0] for e in effs})}", construct=name))
    d = ctx.prog.own_method("DemeTree", "pickle_dump")
    sn = d.self_name()
    dumps = [c for c in body_walk(d.node) if isinstance(c, ast.Call) and isinstance(c.func, ast.Attribute) and c.func.attr in ("dump", "dumps")]
    ddefs = local_defs(d)
    st_d = INCONCLUSIVE
    what = "?"
    if len(dumps) == 1 and dumps[0].args:
        a0 = dumps[0].args[0]
        hops = 0
        while isinstance(a0, ast.Name) and a0.id != sn and len(ddefs.get(a0.id, [])) == 1 and hops < 3:
            a0 = ddefs[a0.id][0]
            hops += 1
        what = norm(a0)
        if what == sn:
            st_d = OK
            if dumps[0].func.attr == "dumps":
                # the bytes must reach the file: <file>.write(<the dumps value>)
                writes = [c for c in body_walk(d.node) if isinstance(c, ast.Call) and isinstance(c.func, ast.Attribute) and c.func.attr == "write" and len(c.args) == 1]
                reach = any(w.args[0] is dumps[0] or (isinstance(w.args[0], ast.Name) and any(v is dumps[0] for v in ddefs.get(w.args[0].id, []))) for w in writes)
                st_d = OK if reach else INCONCLUSIVE
        elif isinstance(a0, (ast.Attribute, ast.Subscript, ast.Dict, ast.List, ast.Tuple)) or (isinstance(a0, ast.Call) and norm(a0.func) in ("copy.copy", "vars", "dict")):
            st_d = VIOLATION  # a part / a projection of the tree
    elif not dumps:
        st_d = VIOLATION if not any(isinstance(c, ast.Call) for c in body_walk(d.node)) else INCONCLUSIVE
    obs.append(ctx.ob("R19.1", d, dumps[0] if dumps else d.node, status=st_d, detail="the whole tree object is dumped" if st_d == OK else f"pickle_dump dumps `{what}` instead of the tree itself: part of the state is missing from the snapshot" if st_d == VIOLATION else f"cannot follow what pickle_dump serialises (`{what}`) into the file", construct="dump-self"))
    wb = [w for g_ in _with_helpers(ctx, d) for w in body_walk(g_.node) if isinstance(w, ast.Call) and norm(w.func) == "open" and len(w.args) >= 2 and isinstance(w.args[1], ast.Constant)]
    okm = bool(wb) and all("b" in w.args[1].value and "w" in w.args[1].value for w in wb)
    any_open = [w for g_ in _with_helpers(ctx, d) for w in body_walk(g_.node) if isinstance(w, ast.Call) and norm(w.func).split(".")[-1] in ("open", "write_bytes")]
    obs.append(ctx.ob("R19.1", d, wb[0] if wb else d.node, status=OK if okm else VIOLATION if wb else INCONCLUSIVE, detail="binary write mode" if okm else "snapshot file is not opened in binary write mode" if wb else "no `open(<path>, <literal mode>)` found behind pickle_dump: how the snapshot file is opened is not followed", construct="dump-mode"))
    l = ctx.prog.own_method("DemeTree", "pickle_load")
    loads = [c for c in body_walk(l.node) if isinstance(c, ast.Call) and isinstance(c.func, ast.Attribute) and c.func.attr in ("load", "loads")]
    rets = [r for r in body_walk(l.node) if isinstance(r, ast.Return)]
    defs = local_defs(l)
    ok = len(loads) == 1 and len(rets) == 1 and (rets[0].value is loads[0] or (isinstance(rets[0].value, ast.Name) and defs.get(rets[0].value.id, [None])[0] is loads[0] and len(defs[rets[0].value.id]) == 1))
    definite = len(rets) == 1 and len(loads) == 1 and not ok and (rets[0].value is None or isinstance(rets[0].value, (ast.Constant, ast.Attribute, ast.Subscript)) or (isinstance(rets[0].value, ast.Call) and not any(x is loads[0] for x in ast.walk(rets[0].value))))
    obs.append(ctx.ob("R19.1", l, rets[0] if rets else l.node, status=OK if ok else VIOLATION if definite else INCONCLUSIVE, detail="returns exactly the loaded object" if ok else "pickle_load does not return the object it loaded unchanged", construct="load-return"))
    return obs


def r19_2(ctx: Ctx):
    """R19.2 the serializer is dill."""
    obs = []
    m = ctx.prog.modules["pyhms.tree"]
    for name in ("pickle_dump", "pickle_load"):
        f = ctx.prog.own_method("DemeTree", name)
        calls = [c for c in body_walk(f.node) if isinstance(c, ast.Call) and isinstance(c.func, ast.Attribute) and c.func.attr in ("dump", "load", "dumps", "loads")]
        for c in calls:
            d = ctx.prog.dotted(c.func, m)
            ok = d is not None and d.startswith("dill.")
            obs.append(ctx.ob("R19.2", f, c, status=OK if ok else VIOLATION, detail=f"serialised with {d}" if ok else f"`{norm(c.func)}` resolves to `{d}`: the stdlib pickle cannot serialise the lambdas held by problems and multiwinner utilities", construct=f"{name}:serializer"))
            # options that change WHAT dill captures: with recurse=True a function pickled by value (a lambda objective, a
            # function defined in the running script) comes back with private copies of the module globals it uses, so the
            # restored tree no longer shares state (counters, ledgers, caches) with the objects of the live program
            for k in c.keywords:
                if k.arg in ("recurse", "byref") and not (isinstance(k.value, ast.Constant) and k.value.value is False):
                    obs.append(ctx.ob("R19.2", f, k.value, status=VIOLATION if k.arg == "recurse" else INCONCLUSIVE, detail=f"`{norm(c)[:70]}` sets dill's `{k.arg}`: " + ("functions pickled by value are restored with copies of the globals they refer to; the restored objective reads and writes its own copies, not the program's (evaluation ledgers, caches and counters kept in module state diverge from the restored tree's accounting)" if k.arg == "recurse" else "objects are then pickled by reference and must be importable where the snapshot is loaded"), construct=f"{name}:option:{k.arg}"))
                elif k.arg not in (None, "protocol", "recurse", "byref", "fix_imports", "buffer_callback"):
                    obs.append(ctx.ob("R19.2", f, k.value, status=INCONCLUSIVE, detail=f"`{norm(c)[:70]}` passes `{k.arg}` to the serializer", construct=f"{name}:option:{k.arg}"))
    return obs


def r19_3(ctx: Ctx):
    """R19.3 no run state outside the pickled graph: no module/class-level writes or mutated default arguments reachable from DemeTree.__init__/run."""
    obs = []
    roots = [ctx.prog.own_method("DemeTree", "__init__"), ctx.prog.own_method("DemeTree", "run"), ctx.prog.own_method("DemeTree", "run_step")]
    seen = set()
    for r in roots:
        for e in sorted(ctx.eff.of(r)):
            if e[0] == "GLOBALWRITE" and e not in seen:
                seen.add(e)
                obs.append(ctx.ob("R19.3", r, r.node, status=VIOLATION, detail=f"running the tree writes module/class-level state `{e[1]}`: that state is not part of a snapshot (lost on restore, shared between trees)", witness=ctx.eff.chain(r, e), construct=f"global:{e[1]}"))
    # mutable default arguments that are mutated
    n_defaults = 0
    for f in ctx.prog.all_functions():
        if f.name == "<module>":
            continue
        a = f.node.args
        pos = a.posonlyargs + a.args
        pairs = list(zip(pos[len(pos) - len(a.defaults):], a.defaults)) + [(p, d) for p, d in zip(a.kwonlyargs, a.kw_defaults) if d is not None]
        for p, d in pairs:
            if isinstance(d, (ast.Dict, ast.List, ast.Set)) or (isinstance(d, ast.Call) and norm(d.func) in ("dict", "list", "set")):
                n_defaults += 1
                mut = ("PARAMMUT", p.arg) in ctx.eff.direct.get(f.qualname, set())
                stored = any(isinstance(n, ast.Assign) and isinstance(n.value, ast.Name) and n.value.id == p.arg and any(isinstance(t, ast.Attribute) for t in n.targets) for n in body_walk(f.node))
                # a stored default is shared between instances; flag only if some method later mutates that attribute
                obs.append(ctx.ob("R19.3", f, d, status=VIOLATION if mut else OK, detail=f"mutable default `{p.arg}={norm(d)}` is never mutated in {f.short}" if not mut else f"{f.short} mutates its mutable default argument `{p.arg}`: state accumulates in the function object, outside any tree"))
    if not seen:
        obs.append(ctx.ob("R19.3", roots[1], roots[1].node, detail="no module-level / class-level write is reachable from DemeTree.__init__ / run", construct="no-global-writes"))
    return obs


HOOKS = ("__getstate__", "__setstate__", "__reduce__", "__reduce_ex__", "__deepcopy__", "__copy__", "__getnewargs__", "__getnewargs_ex__")


def r19_4(ctx: Ctx):
    """R19.4 reducer hooks / __slots__ in pyhms classes must cover every attribute the class assigns."""
    obs = []
    n = 0
    for ci in ctx.prog.classes.values():
        hooks = [h for h in HOOKS if h in ci.methods]
        has_slots = "__slots__" in ci.class_attrs
        if not hooks and not has_slots:
            continue
        n += 1
        attrs = set()
        for m in ctx.prog.functions_in(ci):
            sn = (m.self_name() if m.parent is None else m.parent.self_name()) or "self"
            for x in body_walk(m.node):
                tg = x.targets if isinstance(x, ast.Assign) else [x.target] if isinstance(x, (ast.AugAssign, ast.AnnAssign)) else []
                for t in tg:
                    if is_self_attr(t, None, sn):
                        attrs.add(t.attr)
        for h in hooks:
            m = ci.methods[h]
            txt = norm(m.node)
            whole = "__dict__" in txt and not any(isinstance(c, ast.Call) and isinstance(c.func, ast.Attribute) and c.func.attr in ("pop",) for c in ast.walk(m.node)) and not any(isinstance(d, ast.Delete) for d in ast.walk(m.node))
            named = {a for a in attrs if f"'{a}'" in txt or f'"{a}"' in txt or f".{a}" in txt}
            missing = sorted(attrs - named)
            ok = (whole and not any(isinstance(c, ast.DictComp) and c.generators[0].ifs for c in ast.walk(m.node))) or not missing
            # a hook that edits the state dictionary (entries overwritten / removed) hands the reconstruction to code
            edits = []
            if h in ("__getstate__", "__reduce__", "__reduce_ex__"):
                for x in ast.walk(m.node):
                    if isinstance(x, (ast.Assign, ast.AugAssign, ast.Delete)):
                        for t in (x.targets if isinstance(x, (ast.Assign, ast.Delete)) else [x.target]):
                            if isinstance(t, ast.Subscript) and isinstance(t.slice, ast.Constant) and isinstance(t.slice.value, str):
                                edits.append(t.slice.value)
                    if isinstance(x, ast.Call) and isinstance(x.func, ast.Attribute) and x.func.attr == "pop" and x.args and isinstance(x.args[0], ast.Constant):
                        edits.append(x.args[0].value)
            if edits:
                setter = ci.methods.get("__setstate__")
                restored = set()
                if setter is not None:
                    for x in body_walk(setter.node):
                        tg = x.targets if isinstance(x, ast.Assign) else [x.target] if isinstance(x, (ast.AugAssign, ast.AnnAssign)) else []
                        for t in tg:
                            if is_self_attr(t, None, setter.self_name()):
                                restored.add(t.attr)
                        if isinstance(x, ast.Call) and isinstance(x.func, ast.Attribute) and x.func.attr in ("append", "extend", "insert") and is_self_attr(x.func.value, None, setter.self_name()):
                            restored.add(x.func.value.attr)
                lost = sorted(set(edits) - restored)
                if lost:
                    obs.append(ctx.ob("R19.4", m, m.node, status=VIOLATION, detail=f"{ci.name}.{h} removes / blanks {lost} from the snapshot and __setstate__ does not put them back: the restored object differs from the original", construct=f"{ci.name}.{h}"))
                else:
                    obs.append(ctx.ob("R19.4", m, m.node, status=INCONCLUSIVE, detail=f"{ci.name}.{h} leaves {sorted(set(edits))} out of the snapshot and __setstate__ rebuilds them by code: the analyser cannot tell whether the rebuilt value equals the original", construct=f"{ci.name}.{h}"))
                continue
            obs.append(ctx.ob("R19.4", m, m.node, status=OK if ok else VIOLATION, detail=f"{ci.name}.{h} covers the whole instance state" if ok else f"{ci.name}.{h} does not cover attribute(s) {missing[:6]}: they are dropped from (or not restored by) a snapshot", construct=f"{ci.name}.{h}"))
        if has_slots:
            sl = ci.class_attrs["__slots__"]
            names = {e.value for e in ast.walk(sl.value) if isinstance(e, ast.Constant) and isinstance(e.value, str)}
            missing = sorted(attrs - names)
            obs.append(ctx.ob("R19.4", ci, sl, status=OK if not missing else VIOLATION, detail=f"{ci.name}.__slots__ lists every assigned attribute" if not missing else f"{ci.name}.__slots__ misses {missing[:6]}", construct=f"{ci.name}.__slots__"))
    obs.append(ctx.ob("R19.4", None, None, subject="pyhms", loc="-", detail=f"{len(ctx.prog.classes)} classes scanned, {n} with reducer hooks / __slots__", construct="hooks-scan", trivial=True))
    return obs


GRAPH_ROOTS = ("DemeTree", "AbstractDeme", "BaseSEA", "DE", "SHADE", "Problem", "SproutMechanism", "TreeConfig", "BaseLevelConfig", "Individual", "Population", "GlobalStopCondition", "LocalStopCondition", "UniversalStopCondition", "DemeLevelCandidatesFilter", "TreeLevelCandidatesFilter", "SproutCandidatesGenerator", "UtilityFunction", "MultiwinnerSelection", "MultiwinnerRepeatedSelection", "NumpyCache")


def r19_5(ctx: Ctx):
    """R19.5 nothing unpicklable by construction is stored in the object graph (open files, generators, locks, local classes)."""
    obs = []
    classes = []
    for r in GRAPH_ROOTS:
        c = ctx.prog.cls_opt(r)
        if c is not None:
            classes.extend([c] + ctx.prog.subclasses(c))
    n = 0
    for ci in dict.fromkeys(classes):
        for m in ctx.prog.functions_in(ci):
            sn = (m.self_name() if m.parent is None else m.parent.self_name()) or "self"
            local_classes = {x.name for x in ast.walk(m.node) if isinstance(x, ast.ClassDef)}
            for x in body_walk(m.node):
                if isinstance(x, (ast.Assign, ast.AnnAssign)) and getattr(x, "value", None) is not None:
                    tg = x.targets if isinstance(x, ast.Assign) else [x.target]
                    if not any(is_self_attr(t, None, sn) for t in tg):
                        continue
                    n += 1
                    v = x.value
                    bad = None
                    if isinstance(v, (ast.IfExp, ast.BoolOp)):
                        inner = [c for c in ast.walk(v) if isinstance(c, ast.Call) and (norm(c.func) == "open" or norm(c.func).endswith(".open"))]
                        if inner:
                            bad = "an open file"
                    if isinstance(v, ast.GeneratorExp):
                        bad = "a generator expression"
                    elif isinstance(v, ast.Call):
                        fn = norm(v.func)
                        if fn == "open" or fn.endswith(".open"):
                            bad = "an open file"
                        elif fn.split(".")[-1] in ("Lock", "RLock", "Thread", "Event", "Condition", "Semaphore", "Queue") and fn.split(".")[0] in ("threading", "multiprocessing", "queue", "asyncio"):
                            bad = f"a {fn} object"
                        elif fn in ("iter", "zip", "map", "filter", "enumerate", "reversed"):
                            bad = f"a lazy {fn}() iterator"
                        elif isinstance(v.func, ast.Name) and v.func.id in local_classes:
                            bad = f"an instance of the locally defined class {v.func.id}"
                    if bad:
                        obs.append(ctx.ob("R19.5", m, x, status=VIOLATION, detail=f"`{norm(x)[:70]}` stores {bad} in the object graph: the tree can no longer be snapshotted (or is restored without it)"))
    if n < 60:
        raise AnalysisError(f"only {n} attribute stores found in the object-graph classes")
    obs.append(ctx.ob("R19.5", None, None, subject="pyhms", loc="-", detail=f"{n} attribute stores in {len(dict.fromkeys(classes))} object-graph classes: none holds a file, generator, lock or local-class instance", construct="graph-stores", trivial=True))
    return obs


def r19_6(ctx: Ctx):
    """R19.6 no attribute is a numpy *view* of another attribute that the object keeps writing in place: pickling stores the two arrays separately, so after a restore writes to one are no longer seen through the other."""
    obs = []
    n = 0
    for ci in ctx.prog.classes.values():
        if not ci.module.name.startswith(("pyhms.demes", "pyhms.core", "pyhms.sprout", "pyhms.stop_conditions", "pyhms.tree")):
            continue
        n += 1
        views = []  # (method, stmt, viewing attr, base attr)
        for m in ci.methods.values():
            sn = m.self_name()
            if sn is None:
                continue
            for x in body_walk(m.node):
                if isinstance(x, (ast.Assign, ast.AnnAssign)) and getattr(x, "value", None) is not None and isinstance(x.value, ast.Subscript) and is_self_attr(x.value.value, None, sn):
                    sl = x.value.slice
                    basic = isinstance(sl, (ast.Slice, ast.Constant)) or (isinstance(sl, ast.Tuple) and all(isinstance(e, (ast.Slice, ast.Constant)) for e in sl.elts)) or (isinstance(sl, ast.UnaryOp) and isinstance(sl.operand, ast.Constant))
                    for t in (x.targets if isinstance(x, ast.Assign) else [x.target]):
                        if basic and is_self_attr(t, None, sn) and t.attr != x.value.value.attr:
                            views.append((m, x, t.attr, x.value.value.attr))
        for m, x, a, b in views:
            # is the base (or the view) written in place anywhere in the class?
            writes = []
            for g in ci.methods.values():
                gs = g.self_name()
                for y in body_walk(g.node):
                    if isinstance(y, (ast.Assign, ast.AugAssign)):
                        for t in (y.targets if isinstance(y, ast.Assign) else [y.target]):
                            if isinstance(t, ast.Subscript) and is_self_attr(t.value, None, gs) and t.value.attr in (a, b):
                                writes.append(y)
            if writes:
                obs.append(ctx.ob("R19.6", m, x, status=VIOLATION, detail=f"{ci.name}: `{norm(x)[:60]}` makes self.{a} a view of self.{b}, and the class writes into them in place (`{norm(writes[0])[:50]}`): a snapshot stores two independent arrays, so in a restored object the writes no longer reach the other attribute", construct=f"{ci.name}:{a}-view-of-{b}"))
    if n < 30:
        raise AnalysisError(f"only {n} classes scanned for array views")
    if not obs:
        obs.append(ctx.ob("R19.6", None, None, subject="pyhms", loc="-", detail=f"{n} classes: no attribute is a view of another attribute that is written in place", construct="no-attribute-views"))
    return obs


def r19_7(ctx: Ctx):
    """R19.7 no decision rests on the IDENTITY of a value that a snapshot stores by value: `x is np.inf`, `x is ROOT_ID`,
    `x is not SENTINEL_FLOAT` hold in the live process because the attribute still refers to the very object it was
    assigned from; pickle writes floats, ints, strings and tuples by value, so in the restored tree the attribute is an equal
    but DIFFERENT object and the test flips - the restored run takes another branch than the dumped one would have."""
    obs = []
    n = 0
    for f in ctx.prog.all_functions():
        if f.name == "<module>" or f.module.name.startswith("pyhms.utils.visualisation"):
            continue
        mod_consts = {}
        mf = ctx.prog.module_func(f.module)
        for y in mf.node.body:
            if isinstance(y, ast.Assign) and len(y.targets) == 1 and isinstance(y.targets[0], ast.Name):
                mod_consts[y.targets[0].id] = y.value
        for c in body_walk(f.node):
            if not (isinstance(c, ast.Compare) and len(c.ops) == 1 and isinstance(c.ops[0], (ast.Is, ast.IsNot))):
                continue
            n += 1
            for side, other in ((c.comparators[0], c.left), (c.left, c.comparators[0])):
                v = side
                if isinstance(v, ast.Name) and v.id in mod_consts and v.id not in local_defs(f) and v.id not in f.params():
                    v = mod_consts[v.id]
                by_value = None
                if isinstance(v, ast.Constant) and isinstance(v.value, int) and -5 <= v.value <= 256:
                    continue  # CPython keeps one object per small int (and bool): identity survives the round trip
                if isinstance(v, ast.Constant) and isinstance(v.value, str) and len(v.value) <= 1:
                    continue  # single characters / the empty string are shared objects as well
                if isinstance(v, ast.Constant) and isinstance(v.value, (int, float, str, bytes)) and not isinstance(v.value, bool):
                    by_value = f"the {type(v.value).__name__} `{norm(side)}`"
                elif isinstance(v, ast.Attribute) and norm(v) in ("np.inf", "np.nan", "numpy.inf", "numpy.nan", "math.inf", "math.nan", "np.NINF", "np.PINF", "np.NaN", "np.Inf"):
                    by_value = f"the float object `{norm(side)}`"
                elif isinstance(v, ast.Call) and norm(v.func) == "float":
                    by_value = f"the float `{norm(side)}`"
                elif isinstance(v, ast.UnaryOp) and isinstance(v.operand, ast.Attribute) and norm(v.operand) in ("np.inf", "math.inf"):
                    by_value = f"the float `{norm(side)}`"
                if by_value is None:
                    continue
                state = any(isinstance(x, ast.Attribute) for x in ast.walk(other))
                obs.append(ctx.ob("R19.7", f, c, status=VIOLATION if state else INCONCLUSIVE, detail=f"`{norm(c)[:80]}` tests identity with {by_value}: a snapshot stores such values by value, so after pickle_load `{norm(other)[:40]}` is an equal but different object and the test gives the opposite answer - the restored tree decides differently from the one that was dumped", construct=f"{f.short}:is:{norm(side)}"))
                break
    obs.append(ctx.ob("R19.7", None, None, subject="pyhms", loc="-", detail=f"{n} identity tests, none against a number / string / float constant", construct="identity", trivial=True))
    return obs


RULES = [("R19.7", r19_7, 1), ("R19.1", r19_1, 5), ("R19.2", r19_2, 2), ("R19.3", r19_3, 2), ("R19.4", r19_4, 1), ("R19.5", r19_5, 1), ("R19.6", r19_6, 1)]
