"""CLI: python -m hmslint.check <PROPERTY-ID> [--tier quick|thorough] [--replay FILE] [--repo DIR]

exit 0  every obligation discharged (known findings are printed as KNOWN-FINDING lines)
exit 1  at least one witnessed violation:  VIOLATION property=<id> replay=<path>
exit 2  the analyser could not decide:     ANALYSIS-ERROR / ANALYSIS-INCONCLUSIVE
"""
from __future__ import annotations

import argparse
import importlib
import json
import os
import pathlib
import sys
import time
import traceback

from .core import INCONCLUSIVE, OK, VIOLATION, Ctx, Ob
from .model import AnalysisError, Inconclusive

VERIF = pathlib.Path(__file__).resolve().parent.parent
KNOWN_FILE = VERIF / "known_findings.jsonl"

TRUSTED_BASE = [
    "CPython ast module represents the source faithfully; pyhms does not rewrite itself (rule SELF.1 checks for exec/eval/setattr)",
    "numpy semantics table (DESIGN.md §9): fancy/boolean indexing copies, np.where/concatenate/copy allocate, argsort ascending",
    "external summaries (DESIGN.md §9): cma ask/tell, scipy.optimize.minimize, qmc samplers, scipy.stats rvs, dill dump/load",
    "hmslint resolver: receiver types from annotations / constructor calls / back-propagated arguments; unresolved calls are counted and reported",
]


def load_known() -> list[dict]:
    out = []
    if KNOWN_FILE.exists():
        for line in KNOWN_FILE.read_text().splitlines():
            line = line.strip()
            if not line or line.startswith("#"):
                continue
            out.append(json.loads(line))
    return out


def run_property(pid: str, tier: str, repo: str, only_key: str | None = None):
    t0 = time.time()
    ctx = Ctx(repo)
    mod = importlib.import_module(f"hmslint.rules.{pid.lower()}")
    obs: list[Ob] = []
    rule_docs = {}
    errors: list[str] = []
    for rule_id, fn, min_subjects in mod.RULES:
        rule_docs[rule_id] = (fn.__doc__ or "").strip().split("\n\n")[0].replace("\n", " ")
        try:
            got = list(fn(ctx))
        except Inconclusive as e:
            got = [Ob(rule=rule_id, subject="?", loc="?", status=INCONCLUSIVE, detail=str(e))]
        except AnalysisError as e:
            errors.append(f"{rule_id}: {e}")
            continue
        if len(got) < min_subjects:
            errors.append(
                f"{rule_id}: found {len(got)} subject(s), fewer than the {min_subjects} confirmed by hand "
                f"(anchor vanished or renamed; the rule would pass vacuously)"
            )
        obs.extend(got)
    extra = {}
    if tier == "thorough" and hasattr(mod, "thorough"):
        try:
            t_obs, extra = mod.thorough(ctx)
            obs.extend(t_obs)
        except AnalysisError as e:
            errors.append(f"thorough: {e}")
    if only_key is not None:
        obs = [o for o in obs if o.key == only_key]
    return ctx, mod, obs, rule_docs, errors, extra, time.time() - t0


def implemented_properties() -> list[str]:
    return sorted(p.stem.upper() for p in (VERIF / "hmslint" / "rules").glob("c[0-9][0-9].py"))


def run_all(repo: str, props: list[str] | None = None) -> dict:
    """Run every property's rules against `repo` sharing one parsed program / call graph.
    Returns {pid: {"violations": [rule...], "undecided": [text...], "keys": [...]}}."""
    ctx = Ctx(repo)
    out = {}
    for pid in props or implemented_properties():
        mod = importlib.import_module(f"hmslint.rules.{pid.lower()}")
        viol, und, keys = set(), [], []
        known_keys = {k["key"] for k in load_known() if k.get("property") == pid and k.get("status") == "known"}
        for rule_id, fn, min_subjects in mod.RULES:
            try:
                got = list(fn(ctx))
            except Inconclusive as e:
                und.append(f"{rule_id}: {e}")
                continue
            except AnalysisError as e:
                und.append(f"{rule_id}: {e}")
                continue
            except Exception as e:  # noqa: BLE001
                und.append(f"{rule_id}: crash {e!r}")
                continue
            if len(got) < min_subjects:
                und.append(f"{rule_id}: {len(got)} < {min_subjects} subjects")
            for o in got:
                if o.status == VIOLATION and o.key in known_keys:
                    continue  # a listed known finding: reported as KNOWN-FINDING by the check, not a new violation
                if o.status == VIOLATION:
                    viol.add(o.rule)
                    keys.append(o.key)
                elif o.status == INCONCLUSIVE:
                    und.append(f"{o.rule}: {o.detail[:100]}")
        out[pid] = {"violations": sorted(viol), "undecided": und, "keys": keys}
    return out


def main(argv=None) -> int:
    ap = argparse.ArgumentParser()
    ap.add_argument("property")
    ap.add_argument("--tier", default=os.environ.get("VERIF_TIER", "quick"), choices=["quick", "thorough"])
    ap.add_argument("--replay")
    ap.add_argument("--repo", default=os.environ.get("HMSLINT_REPO", "/repo"))
    ap.add_argument("--no-evidence", action="store_true")
    ap.add_argument("--evidence-dir", default=str(VERIF / "evidence"))
    ap.add_argument("-v", "--verbose", action="store_true")
    args = ap.parse_args(argv)
    pid = args.property.upper()
    seed = int(os.environ.get("VERIF_SEED", "0") or 0)
    only_key = None
    if args.replay:
        try:
            only_key = json.loads(pathlib.Path(args.replay).read_text())["key"]
        except Exception as e:  # noqa: BLE001
            print(f"ANALYSIS-ERROR property={pid} cannot read replay file: {e}")
            return 2
    try:
        ctx, mod, obs, rule_docs, errors, extra, wall = run_property(pid, args.tier, args.repo, only_key)
        if args.tier == "thorough" and not args.replay:
            from . import selftest

            st = selftest.run_for(pid, args.repo, seed)
            extra["selftest"] = st["summary"]
            errors.extend(st["errors"])
            wall += st["wall_s"]
    except AnalysisError as e:
        print(f"ANALYSIS-ERROR property={pid} {e}")
        return 2
    except ModuleNotFoundError as e:
        print(f"ANALYSIS-ERROR property={pid} no rule module: {e}")
        return 2
    except Exception:  # noqa: BLE001
        traceback.print_exc()
        print(f"ANALYSIS-ERROR property={pid} analyser crashed (traceback on stderr)")
        return 2

    known = [k for k in load_known() if k.get("property") == pid and k.get("status") == "known"]
    known_keys = {k["key"]: k for k in known}
    viols = [o for o in obs if o.status == VIOLATION]
    incon = [o for o in obs if o.status == INCONCLUSIVE]
    new_viols = []
    for o in viols:
        if o.key in known_keys:
            print(f"KNOWN-FINDING: property={pid} {known_keys[o.key].get('what', o.detail)}")
        else:
            new_viols.append(o)

    replay_dir = pathlib.Path(args.evidence_dir) / "replay"
    replay_paths = []
    if new_viols and not args.no_evidence:
        replay_dir.mkdir(parents=True, exist_ok=True)
    for i, o in enumerate(new_viols):
        rp = replay_dir / f"{pid}-{i}.json"
        if not args.no_evidence:
            rp.write_text(json.dumps({"property": pid, "key": o.key, **o.to_json()}, indent=1))
        replay_paths.append(rp)

    discharged = sum(1 for o in obs if o.status == OK)
    nontrivial = len({o.key for o in obs if not o.trivial})
    if not args.no_evidence and not args.replay:
        ev = {
            "property_id": pid,
            "tier": args.tier,
            "seed": seed,
            "level": "other",
            "coverage": {
                "explanation": getattr(mod, "EXPLANATION", "").strip(),
                "obligations": len(obs),
                "discharged": discharged,
                "evaluations": len(obs),
                "distinct_nontrivial": nontrivial,
                "rule": "one obligation = one static rule applied to one discovered subject (function, call site, "
                "switch, write site or CFG path family) of /repo/pyhms as it is on disk; distinct = distinct "
                "(rule, subject, construct) keys; non-trivial = the subject was found and the rule had a construct to decide",
                "rules": rule_docs,
                "samples": [o.to_json() for o in (viols + incon + [o for o in obs if o.status == OK])[:40]],
                "checker_cmd": f"/venv/bin/python -m hmslint.check {pid} --tier {args.tier}",
                "trusted_base": TRUSTED_BASE,
                "analysed": {**ctx.prog.stats(), **(ctx.res.stats() if ctx._res is not None else {}), **ctx.counters},
                "per_rule": _per_rule(obs),
                "violations_known": len(viols) - len(new_viols),
                "inconclusive": len(incon),
                "analysis_errors": errors,
                "exhaustive": True,
                **extra,
            },
            "assumptions": list(getattr(mod, "ASSUMPTIONS", [])),
            "wall_s": round(wall, 3),
            "violations": len(new_viols),
        }
        out = pathlib.Path(args.evidence_dir)
        out.mkdir(parents=True, exist_ok=True)
        (out / f"{pid}.json").write_text(json.dumps(ev, indent=1, default=str))

    print(
        f"hmslint {pid} tier={args.tier}: {len(obs)} obligations, {discharged} discharged, "
        f"{len(viols)} violation(s) ({len(viols) - len(new_viols)} known), {len(incon)} inconclusive, "
        f"{len(errors)} analysis error(s); {ctx.prog.stats()['files']} files, wall {wall:.2f}s"
    )
    if args.verbose:
        for o in obs:
            print(f"  [{o.status}] {o.rule} {o.subject} @{o.loc} {o.detail}")
    for o, rp in zip(new_viols, replay_paths):
        print(f"  {o.rule} {o.loc} {o.subject}: {o.detail}")
        for w in o.witness[:12]:
            print(f"      | {w}")
    for o, rp in zip(new_viols, replay_paths):
        print(f"VIOLATION property={pid} replay={rp}")
    if new_viols:
        return 1
    for e in errors:
        print(f"ANALYSIS-ERROR property={pid} {e}")
    for o in incon:
        print(f"ANALYSIS-INCONCLUSIVE property={pid} rule={o.rule} site={o.loc} {o.subject}: {o.detail}")
    if errors or incon:
        return 2
    return 0


def _per_rule(obs):
    out = {}
    for o in obs:
        d = out.setdefault(o.rule, {"obligations": 0, "discharged": 0})
        d["obligations"] += 1
        d["discharged"] += 1 if o.status == OK else 0
    return out


if __name__ == "__main__":
    sys.exit(main())
