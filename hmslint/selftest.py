"""Checker adequacy (thorough tier): seeded mutants must be reported, benign twins must stay silent.

Variants are textual edits of the *current* /repo/pyhms, materialised in a mkdtemp directory outside
/repo and /verif and removed before returning. A mutant the rules miss, or a twin they flag, is an
ANALYSIS-ERROR of the checker (exit 2) — never a violation of pyhms.
"""
from __future__ import annotations

import os
import pathlib
import random
import shutil
import tempfile
import time
from concurrent.futures import ProcessPoolExecutor

from .core import INCONCLUSIVE, VIOLATION


def _corpus(pid: str):
    from .selftest_corpus import CORPUS

    out = [v for v in CORPUS if v["prop"] == pid]
    # confirmed changes written by independent sub-agents (kept under /verif/seeded/<id>/)
    seeded = pathlib.Path(__file__).resolve().parent.parent / "seeded"
    expect = {}
    if (seeded / "EXPECT.json").exists():
        import json

        expect = json.loads((seeded / "EXPECT.json").read_text())
    for d in sorted(seeded.glob("*/patch.diff")):
        sid = d.parent.name
        for prop, rules in expect.get(sid, {}).items():
            if prop == pid:
                out.append({"id": "seeded:" + sid, "prop": pid, "kind": "mutant", "patch": str(d), "expect": rules, "what": "independent seeded change " + sid})
    # behaviour-preserving refactorings written by independent sub-agents (digest-equal on an end-to-end run): every
    # property's check must stay silent on each of them
    # UNDECIDED.json lists, per refactoring and property, the rules that answer `undecided` (exit 2) because the restructured
    # code is outside the forms they follow; a listed refactoring may stay undecided there but must never be a VIOLATION
    undecided = {}
    if (seeded / "twins" / "UNDECIDED.json").exists():
        import json

        undecided = json.loads((seeded / "twins" / "UNDECIDED.json").read_text())
    for d in sorted((seeded / "twins").glob("*/patch.diff")):
        out.append({"id": "twin:" + d.parent.name, "prop": pid, "kind": "twin", "patch": str(d), "what": "independent benign refactoring " + d.parent.name, "undecided_ok": sorted(undecided.get(d.parent.name, {}).get(pid, []))})
    only = os.environ.get("HMSLINT_SELFTEST_ONLY")  # development aid: run the variants whose id contains this text
    if only:
        out = [v for v in out if only in v["id"]]
    if os.environ.get("HMSLINT_SELFTEST_HAND_ONLY") == "1":
        # development aid: only the hand-written corpus (the independent changes are covered by tools/seed_expect.py / twin_expect.py)
        out = [v for v in out if not v["id"].startswith(("seeded:", "twin:"))]
    return out


def _apply(src_root: pathlib.Path, dst_root: pathlib.Path, edits) -> str | None:
    """Copy pyhms and apply edits; returns a reason string if an edit target is absent."""
    shutil.copytree(src_root / "pyhms", dst_root / "pyhms", ignore=shutil.ignore_patterns("__pycache__"))
    for file, old, new in edits:
        p = dst_root / file
        if not p.exists():
            return f"file {file} absent"
        s = p.read_text()
        c = s.count(old)
        if c != 1:
            return f"edit target occurs {c} times in {file}"
        p.write_text(s.replace(old, new))
    return None


def _run_variant(args):
    pid, repo, variant, base_keys = args
    from .check import run_property

    tmp = pathlib.Path(tempfile.mkdtemp(prefix="hmslint-st-"))
    try:
        if "patch" in variant:
            import subprocess

            shutil.copytree(pathlib.Path(repo) / "pyhms", tmp / "pyhms", ignore=shutil.ignore_patterns("__pycache__"))
            pr = subprocess.run(["patch", "-p1", "-s", "-f", "-d", str(tmp), "-i", variant["patch"]], capture_output=True, text=True)
            if pr.returncode != 0:
                return {"id": variant["id"], "outcome": "skipped", "why": "patch no longer applies: " + (pr.stdout + pr.stderr)[-200:]}
        else:
            edits = variant.get("edits") or [(variant["file"], variant["old"], variant["new"])]
            why = _apply(pathlib.Path(repo), tmp, edits)
            if why is not None:
                return {"id": variant["id"], "outcome": "skipped", "why": why}
            try:
                import ast

                for file, _, _ in edits:
                    ast.parse((tmp / file).read_text())
            except SyntaxError as e:
                return {"id": variant["id"], "outcome": "broken-variant", "why": str(e)}
        try:
            ctx, mod, obs, docs, errors, extra, wall = run_property(pid, "quick", str(tmp))
        except Exception as e:  # noqa: BLE001
            return {"id": variant["id"], "outcome": "analysis-error", "why": repr(e)}
        new_v = [o for o in obs if o.status == VIOLATION and o.key not in base_keys]
        new_i = [o for o in obs if o.status == INCONCLUSIVE and o.key not in base_keys]
        return {
            "id": variant["id"],
            "outcome": "ran",
            "violations": [(o.rule, o.loc, o.detail[:120]) for o in new_v],
            "inconclusive": [(o.rule, o.loc, o.detail[:120]) for o in new_i],
            "errors": errors,
        }
    finally:
        shutil.rmtree(tmp, ignore_errors=True)


def run_for(pid: str, repo: str, seed: int = 0, jobs: int | None = None) -> dict:
    t0 = time.time()
    variants = _corpus(pid)
    if not variants:
        return {"summary": {"variants": 0}, "errors": [], "wall_s": 0.0}
    from .check import run_property

    ctx, mod, obs, docs, base_errors, extra, wall = run_property(pid, "quick", repo)
    base_keys = {o.key for o in obs if o.status in (VIOLATION, INCONCLUSIVE)}
    order = list(variants)
    random.Random(seed).shuffle(order)
    jobs = jobs or min(16, os.cpu_count() or 4)
    with ProcessPoolExecutor(max_workers=jobs) as ex:
        results = list(ex.map(_run_variant, [(pid, repo, v, base_keys) for v in order]))
    by_id = {r["id"]: r for r in results}
    errors = []
    detected = missed = silent = flagged = skipped = undecided_n = 0
    rows = []
    for v in variants:
        r = by_id[v["id"]]
        kind = v.get("kind", "mutant")
        if r["outcome"] == "skipped":
            skipped += 1
            rows.append({"id": v["id"], "kind": kind, "result": "skipped", "why": r["why"]})
            continue
        if r["outcome"] != "ran":
            errors.append(f"selftest {v['id']}: {r['outcome']}: {r.get('why')}")
            continue
        rules_hit = {x[0] for x in r["violations"]}
        if kind == "mutant":
            expect = set(v.get("expect") or [])
            ok = bool(rules_hit & expect) if expect else bool(rules_hit)
            if ok:
                detected += 1
                rows.append({"id": v["id"], "kind": kind, "result": "detected", "by": sorted(rules_hit)})
            else:
                missed += 1
                rows.append({"id": v["id"], "kind": kind, "result": "MISSED", "hit": sorted(rules_hit), "inconclusive": r["inconclusive"]})
                errors.append(f"selftest: seeded mutant {v['id']} ({v.get('what', '')}) is not reported by {sorted(expect) or 'any rule'} (hit: {sorted(rules_hit)})")
        else:
            allowed = set(v.get("undecided_ok") or [])
            und_rules = {x[0] for x in r["inconclusive"]} | {e.split(":")[0].strip() for e in (r["errors"] if not base_errors else [])}
            if not r["violations"] and und_rules and und_rules <= allowed:
                undecided_n += 1
                rows.append({"id": v["id"], "kind": kind, "result": "undecided (listed)", "rules": sorted(und_rules)})
            elif r["violations"] or r["inconclusive"] or r["errors"] and not base_errors:
                flagged += 1
                rows.append({"id": v["id"], "kind": kind, "result": "FLAGGED", "violations": r["violations"], "inconclusive": r["inconclusive"]})
                errors.append(f"selftest: benign twin {v['id']} ({v.get('what', '')}) is flagged: {r['violations'] or r['inconclusive'] or r['errors']}")
            else:
                silent += 1
                rows.append({"id": v["id"], "kind": kind, "result": "silent"})
    summary = {
        "variants": len(variants),
        "mutants_detected": detected,
        "mutants_missed": missed,
        "twins_silent": silent,
        "twins_flagged": flagged,
        "twins_undecided_listed": undecided_n,
        "skipped_target_absent": skipped,
        "rows": rows,
    }
    return {"summary": summary, "errors": errors, "wall_s": time.time() - t0}


def main():
    import argparse
    import json

    ap = argparse.ArgumentParser()
    ap.add_argument("props", nargs="*")
    ap.add_argument("--repo", default="/repo")
    args = ap.parse_args()
    from .selftest_corpus import CORPUS

    props = args.props or sorted({v["prop"] for v in CORPUS})
    bad = 0
    for pid in props:
        r = run_for(pid, args.repo)
        s = r["summary"]
        print(f"{pid}: {s.get('variants', 0)} variants, detected {s.get('mutants_detected')}, missed {s.get('mutants_missed')}, twins silent {s.get('twins_silent')}, undecided (listed) {s.get('twins_undecided_listed')}, flagged {s.get('twins_flagged')}, skipped {s.get('skipped_target_absent')}  ({r['wall_s']:.1f}s)")
        for row in s.get("rows", []):
            if row["result"] in ("MISSED", "FLAGGED", "skipped"):
                print("   ", json.dumps(row))
        for e in r["errors"]:
            print("   ERR", e)
            bad += 1
    return 1 if bad else 0


if __name__ == "__main__":
    raise SystemExit(main())
