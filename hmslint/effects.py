"""Effect summaries over the resolved call graph.

Effect = (kind, detail):
  ("EVAL", site)                 invokes the user's objective (FunctionProblem.fitness_function or an
                                 abstract Problem.evaluate implemented outside pyhms)
  ("RNG", stream)                draws from / reseeds a random stream ("np-global", "py-global", "gen:<ctor>")
  ("SEED", stream)               (re)seeds a global stream
  ("WRITE", "Class.attr"|"?.attr")   stores to an attribute / mutates a container held in an attribute
  ("GLOBALWRITE", name)          stores to module-level or class-level state
  ("PARAMMUT", name)             mutates an object received as a parameter (by container method / item store)
  ("IO", what) ("LOG", "") ("CLOCK", what) ("ENTROPY", what)
  ("UNKNOWN", text)              calls something that could not be resolved
"""
from __future__ import annotations

import ast

from .callgraph import DICT_MUTATORS, LIST_MUTATORS, SET_MUTATORS, CallSite, Resolver, members
from .model import FuncInfo, Program, body_walk, norm

NP_RANDOM_DRAWS = {
    "uniform", "normal", "rand", "randn", "randint", "choice", "shuffle", "permutation", "multivariate_normal",
    "random", "random_sample", "standard_normal", "standard_cauchy", "beta", "binomial", "exponential", "gamma",
    "integers", "sample", "ranf", "bytes", "laplace", "lognormal", "poisson", "triangular", "cauchy",
}
PY_RANDOM_DRAWS = {
    "random", "choice", "choices", "shuffle", "sample", "randint", "randrange", "uniform", "gauss", "normalvariate",
    "getrandbits", "betavariate", "expovariate", "triangular",
}
GEN_CTORS = {
    "numpy.random.default_rng", "numpy.random.RandomState", "numpy.random.Generator", "random.Random",
    "scipy.stats.qmc.LatinHypercube", "scipy.stats.qmc.Sobol", "scipy.stats.qmc.Halton", "scipy.stats.qmc.PoissonDisk",
    "cma.CMAEvolutionStrategy", "numpy.random.SeedSequence", "random.SystemRandom",
}
GEN_DRAW_METHODS = NP_RANDOM_DRAWS | {"ask", "ask_and_eval", "ask_geno", "fast_forward", "reset", "tell"} | PY_RANDOM_DRAWS
NP_INPLACE = {"fill_diagonal", "shuffle", "copyto", "put", "place", "putmask", "put_along_axis"}
ENTROPY = {"uuid.uuid1", "uuid.uuid4", "os.urandom", "secrets.token_bytes", "secrets.token_hex", "secrets.randbits", "secrets.choice", "builtins.id", "builtins.hash", "os.getpid"}
CLOCK_PREFIX = ("time.", "datetime.")
LOG_METHODS = {"debug", "info", "warning", "error", "critical", "exception", "log", "bind", "msg"}
# external callees that are known not to have effects relevant here
PURE_PREFIX = (
    "numpy.", "math.", "builtins.", "copy.", "scipy.stats.chi2", "scipy.spatial", "scipy.stats.pearsonr", "sklearn.", "typing.", "dataclasses.",
    "functools.", "itertools.", "enum.", "abc.", "collections.", "operator.", "scipy.linalg", "numpy.linalg", "treelib.", "graphviz.",
    "matplotlib.", "plotly.", "pandas.", "structlog.", "scipy.optimize", "dill.", "pickle.", "scipy.stats.qmc.scale", "cma.", "scipy.stats.", "scipy.",
    "io.", "typing_extensions.", "warnings.", "os.path", "pathlib.", "json.", "re.", "string.", "textwrap.", "logging.",
)


def classify_external(dotted: str, cs: CallSite | None = None) -> list[tuple]:
    """Effects of calling an external callee (by fully qualified name)."""
    d = dotted
    last = d.rsplit(".", 1)[-1]
    if d.startswith("numpy.random."):
        if d in GEN_CTORS:
            return [("GENCTOR", d)]
        if last == "seed":
            return [("SEED", "np-global")]
        if last in ("get_state", "set_state"):
            return [("RNG", "np-global")] if last == "set_state" else []
        return [("RNG", "np-global")]
    if d.startswith("random.") and d.count(".") == 1:
        if d in GEN_CTORS:
            return [("GENCTOR", d)]
        if last == "seed":
            return [("SEED", "py-global")]
        if last in ("getstate",):
            return []
        return [("RNG", "py-global")]
    if d in GEN_CTORS:
        return [("GENCTOR", d)]
    if d.startswith("scipy.stats.") and last == "rvs":
        return [("RNG", "np-global")]
    if d in ENTROPY or d.startswith("secrets."):
        return [("ENTROPY", d)]
    if d.startswith(CLOCK_PREFIX) and last not in ("sleep",):
        return [("CLOCK", d)]
    if d == "builtins.open" or d == "builtins.print" or d == "builtins.input":
        return [("IO", d)]
    if d in ("builtins.setattr", "builtins.delattr", "builtins.exec", "builtins.eval", "builtins.globals", "builtins.__import__"):
        return [("UNKNOWN", d)]
    if d.startswith("builtins.list.") or d.startswith("builtins.dict.") or d.startswith("builtins.set.") or d.startswith("builtins.tuple.") or d.startswith("builtins.iter."):
        return []
    # generator-object methods: type strings like "scipy.stats.qmc.Sobol.random", "cma.CMAEvolutionStrategy.ask"
    for g in GEN_CTORS:
        if d.startswith(g + "."):
            if last in GEN_DRAW_METHODS:
                return [("RNG", "gen:" + g)]
            return []
    if "FilteringBoundLogger" in d or d.startswith("structlog.") or d.startswith("logging."):
        return [("LOG", "")]
    if d.startswith(("dill.dump", "pickle.dump", "dill.load", "pickle.load")):
        return [("IO", d)]
    if d.startswith("io.File"):
        return [("IO", d)]
    if d.startswith(PURE_PREFIX):
        return []
    return [("UNKNOWN", d)]


class Effects:
    def __init__(self, prog: Program, res: Resolver) -> None:
        self.prog = prog
        self.res = res
        self.direct: dict[str, set] = {}
        self.edges: dict[str, set[tuple]] = {}  # caller -> {(callee qualname, ctor-class qualname | None)}
        self.trans: dict[str, set] = {}
        self.why: dict[tuple, tuple] = {}  # (func, effect) -> (lineno, via callee qualname | None)
        self.sites: dict[tuple, list] = {}  # (caller, callee) -> [call nodes]
        self._compute()

    # -------------------------------------------------------------- direct effects
    def _compute(self) -> None:
        for f in self.prog.all_functions():
            self.direct[f.qualname], self.edges[f.qualname] = self._direct(f)
        # abstract Problem.evaluate: implemented by user subclasses -> objective invocation
        prob = self.prog.cls_opt("Problem")
        if prob is not None and "evaluate" in prob.methods:
            q = prob.methods["evaluate"].qualname
            self.direct[q].add(("EVAL", "Problem.evaluate (user subclass)"))
        self.trans = {q: set(e) for q, e in self.direct.items()}
        changed = True
        while changed:
            changed = False
            for q, callees in self.edges.items():
                cur = self.trans[q]
                for c, ctor_cls in callees:
                    add = self.trans.get(c, set()) - cur
                    if any(e[0] == "PARAMMUT" for e in add):
                        add = self._map_parammut(q, c, add) - cur
                    if ctor_cls is not None:
                        add = {e for e in add if not self._fresh_write(e, ctor_cls)}
                    # effects on freshly constructed objects do not escape through constructors? keep all
                    if add:
                        for e in add:
                            self.why.setdefault((q, e), (None, c))
                        cur |= add
                        changed = True

    _FRESH_CALLS = ("list", "dict", "set", "deque", "collections.deque", "defaultdict", "collections.defaultdict", "OrderedDict", "bytearray")

    def _map_parammut(self, caller_q: str, callee_q: str, effects: set) -> set:
        """A callee that mutates its parameter p mutates, in the caller, whatever the caller passes for p: nothing observable
        when that is a container the caller has just created itself (an accumulator handed down a recursion), the caller's own
        parameter when it passes one on, and an unknown object otherwise (kept as it is)."""
        sites = self.sites.get((caller_q, callee_q))
        callee = self.prog.functions.get(callee_q)
        caller = self.prog.functions.get(caller_q)
        if not sites or callee is None or caller is None:
            return effects
        out = {e for e in effects if e[0] != "PARAMMUT"}
        from .core import local_defs

        defs = local_defs(caller)
        cparams = set(caller.params())
        for e in effects:
            if e[0] != "PARAMMUT":
                continue
            mapped = set()
            for call in sites:
                if call is None:
                    mapped.add(e)
                    continue
                formal = list(callee.params())
                if callee.cls is not None and formal and isinstance(call.func, ast.Attribute) and not callee.is_static:
                    formal = formal[1:]
                arg = None
                if e[1] in formal and formal.index(e[1]) < len(call.args) and not any(isinstance(a, ast.Starred) for a in call.args):
                    arg = call.args[formal.index(e[1])]
                for k in call.keywords:
                    if k.arg == e[1]:
                        arg = k.value
                if isinstance(arg, ast.Name) and arg.id in cparams:
                    mapped.add(("PARAMMUT", arg.id))
                elif isinstance(arg, ast.Name) and arg.id in defs and defs[arg.id] and all(isinstance(d, (ast.List, ast.Dict, ast.Set, ast.ListComp, ast.DictComp, ast.SetComp)) or (isinstance(d, ast.Call) and norm(d.func) in self._FRESH_CALLS and not d.args) for d in defs[arg.id]):
                    continue  # a container created in the caller: its mutation is not observable outside
                elif isinstance(arg, (ast.List, ast.Dict, ast.Set, ast.ListComp, ast.DictComp, ast.SetComp)):
                    continue
                else:
                    mapped.add(e)
            out |= mapped
        return out

    def _direct(self, f: FuncInfo):
        eff: set = set()
        edges: set[str] = set()
        env = self.res.env(f)
        params = set(f.params())
        selfn = f.self_name() if f.parent is None else None
        for cs in self.res.callsites(f):
            for t in cs.targets:
                ctor_cls = t.cls.qualname if (cs.kind == "ctor" and t.cls is not None) else None
                edges.add((t.qualname, ctor_cls))
                if cs.kind == "call" and isinstance(cs.node, ast.Call):
                    self.sites.setdefault((f.qualname, t.qualname), []).append(cs.node)
                else:
                    self.sites.setdefault((f.qualname, t.qualname), []).append(None)
            if cs.kind in ("call", "ctor") and isinstance(cs.node, ast.Call):
                call = cs.node
                if cs.external:
                    for e in classify_external(cs.external, cs):
                        if e[0] == "GENCTOR":
                            continue
                        if e[0] == "RNG" and self._nan_guarded(f, call):
                            e = ("RNG-NANTIE", e[1])
                        eff.add(e)
                        self.why.setdefault((f.qualname, e), (cs.lineno, None))
                    # higher-order: callables handed to external code are assumed to be called
                    for a in list(call.args) + [k.value for k in call.keywords]:
                        at = self.res.type_of(a, f)
                        for t in members(at):
                            if t[0] in ("bound", "func"):
                                fi = self.prog.functions.get(t[1])
                                if fi is not None:
                                    if t[0] == "bound":
                                        recv = self.prog.classes.get(t[2])
                                        for c in self.res.dispatch(recv, fi.name) or [fi]:
                                            edges.add((c.qualname, None))
                                    else:
                                        edges.add((fi.qualname, None))
                    # container mutation through method call
                    if isinstance(call.func, ast.Attribute):
                        self._mutation_by_method(call, cs.external, f, eff, params, selfn)
                    # numpy / stdlib functions that mutate their first argument in place
                    if cs.external.rsplit(".", 1)[-1] in NP_INPLACE and cs.external.startswith(("numpy.", "random.")) and call.args:
                        fake = ast.Call(func=ast.Attribute(value=call.args[0], attr="sort", ctx=ast.Load()), args=[], keywords=[])
                        ast.copy_location(fake, call)
                        self._mutation_by_method(fake, "builtins.list.sort", f, eff, params, selfn)
                if cs.unresolved:
                    txt = norm(call.func)
                    fn = call.func
                    # objective slot: a callable stored on a Problem instance
                    if isinstance(fn, ast.Attribute) and fn.attr == "fitness_function":
                        e = ("EVAL", f"{f.short}:{txt}")
                        eff.add(e)
                        self.why.setdefault((f.qualname, e), (cs.lineno, None))
                    elif isinstance(fn, ast.Attribute) and fn.attr in LOG_METHODS and "logger" in txt.lower():
                        eff.add(("LOG", ""))
                    else:
                        e = ("UNKNOWN", txt)
                        eff.add(e)
                        self.why.setdefault((f.qualname, e), (cs.lineno, None))
                if cs.external and cs.external.endswith("Callable.__call__"):
                    e = ("UNKNOWN", norm(call.func))
                    eff.add(e)
        # the objective slot may be typed (Callable attr): catch by attribute name as well
        for n in body_walk(f.node):
            if isinstance(n, ast.Call) and isinstance(n.func, ast.Attribute) and n.func.attr == "fitness_function":
                e = ("EVAL", f"{f.short}:{norm(n.func)}")
                eff.add(e)
                self.why.setdefault((f.qualname, e), (n.lineno, None))
                eff.discard(("UNKNOWN", norm(n.func)))
        # stores
        declared_global = set()
        for n in body_walk(f.node):
            if isinstance(n, ast.Global):
                declared_global |= set(n.names)
        for n in body_walk(f.node):
            tgts = []
            if isinstance(n, ast.Assign):
                tgts = list(n.targets)
            elif isinstance(n, (ast.AugAssign, ast.AnnAssign)):
                if not (isinstance(n, ast.AnnAssign) and n.value is None):
                    tgts = [n.target]
            elif isinstance(n, ast.Delete):
                tgts = list(n.targets)
            elif isinstance(n, (ast.For, ast.AsyncFor)):
                tgts = [n.target]
            elif isinstance(n, ast.NamedExpr):
                tgts = [n.target]
            # `x += y` on a local that aliases a list / array / set / dict held elsewhere extends that object in place
            if isinstance(n, ast.AugAssign) and isinstance(n.target, ast.Name) and isinstance(n.op, (ast.Add, ast.BitOr, ast.Mult, ast.Sub, ast.BitAnd)) and n.target.id != selfn:
                tt = self.res.type_of(ast.copy_location(ast.Name(id=n.target.id, ctx=ast.Load()), n.target), f)
                mutable = any(m_[0] in ("list", "set", "dict") or (m_[0] == "inst" and m_[1] in ("numpy.ndarray",)) or (m_[0] == "ext" and "ndarray" in str(m_[1])) for m_ in members(tt)) if tt is not None else False
                if mutable:
                    if n.target.id in params:
                        e = ("PARAMMUT", n.target.id)
                        eff.add(e)
                        self.why.setdefault((f.qualname, e), (n.lineno, None))
                    else:
                        src = self._alias_source(f, n.target.id)
                        if src is not None:
                            e = ("WRITE", f"alias:{src}+=")
                            eff.add(e)
                            self.why.setdefault((f.qualname, e), (n.lineno, None))
            flat = []
            for t in tgts:
                flat.extend(self._flatten(t))
            for t in flat:
                self._store_effect(t, n, f, eff, params, selfn, declared_global)
        return eff, edges

    def _fresh_write(self, e: tuple, ctor_cls: str) -> bool:
        """WRITE effects of a constructor on the object being constructed do not concern the caller."""
        if e[0] != "WRITE":
            return False
        ci = self.prog.classes.get(ctor_cls)
        if ci is None:
            return False
        own = {c.name for c in self.prog.mro(ci)}
        owner = e[1].split(".", 1)[0]
        return all(o in own for o in owner.split("|"))

    def _nan_guarded(self, f: FuncInfo, call: ast.AST) -> bool:
        """Is the call nested (on the true side) in if-tests that all call isnan (a draw used only to
        break ties between two NaN fitness values)?"""
        parents = getattr(f, "_parents", None)
        if parents is None:
            parents = {}
            for n in ast.walk(f.node):
                for ch in ast.iter_child_nodes(n):
                    parents[id(ch)] = n
            f._parents = parents
        # path condition of the call: enclosing if / conditional-expression tests (true side) and earlier `and` operands,
        # with single-definition locals substituted; the draw is a NaN tie-break when that condition has (at least) two
        # positive isnan(...) conjuncts on different operands
        from .core import local_defs, _Subst
        import copy

        defs = local_defs(f)
        conds = []
        cur = call
        while id(cur) in parents:
            par = parents[id(cur)]
            if isinstance(par, ast.If) and any(cur is x for x in par.body):
                conds.append(par.test)
            elif isinstance(par, ast.If) and any(cur is x for x in par.orelse):
                conds.append(ast.UnaryOp(op=ast.Not(), operand=par.test))
            elif isinstance(par, ast.IfExp) and cur is par.body:
                conds.append(par.test)
            elif isinstance(par, ast.IfExp) and cur is par.orelse:
                conds.append(ast.UnaryOp(op=ast.Not(), operand=par.test))
            elif isinstance(par, ast.BoolOp) and isinstance(par.op, ast.And):
                idx = next((i for i, v in enumerate(par.values) if v is cur), 0)
                conds.extend(par.values[:idx])
            elif isinstance(par, ast.match_case) and any(cur is x for x in par.body):
                # `match (isnan(a), isnan(b)): case (True, True): <draw>`: the elements matched against True hold on this arm
                m_ = parents.get(id(par))
                if isinstance(m_, ast.Match) and isinstance(m_.subject, ast.Tuple) and isinstance(par.pattern, ast.MatchSequence) and len(par.pattern.patterns) == len(m_.subject.elts) and par.guard is None:
                    for el, pt in zip(m_.subject.elts, par.pattern.patterns):
                        if isinstance(pt, ast.MatchSingleton) and pt.value is True:
                            conds.append(el)
            cur = par
        atoms = set()

        def positive_conjuncts(e, neg=False):
            e = _Subst(defs, 3).visit(copy.deepcopy(e))
            # push negations inwards: not not X = X ; not (A or B) = not A and not B
            if isinstance(e, ast.UnaryOp) and isinstance(e.op, ast.Not):
                positive_conjuncts(e.operand, not neg)
                return
            if neg:
                if isinstance(e, ast.BoolOp) and isinstance(e.op, ast.Or):
                    for v in e.values:
                        positive_conjuncts(v, True)
                return
            if isinstance(e, ast.BoolOp) and isinstance(e.op, ast.And):
                for v in e.values:
                    positive_conjuncts(v)
            elif isinstance(e, ast.Call) and norm(e.func).split(".")[-1] == "isnan" and e.args:
                atoms.add(norm(e.args[0]))
            elif isinstance(e, ast.Call) and norm(e.func) == "bool" and len(e.args) == 1:
                positive_conjuncts(e.args[0])

        for c in conds:
            positive_conjuncts(c)
        return len(atoms) >= 2

    @staticmethod
    def _flatten(t):
        if isinstance(t, (ast.Tuple, ast.List)):
            out = []
            for e in t.elts:
                out.extend(Effects._flatten(e))
            return out
        if isinstance(t, ast.Starred):
            return Effects._flatten(t.value)
        return [t]

    def _owner(self, base: ast.expr, f: FuncInfo) -> str:
        bt = self.res.type_of(base, f)
        names = []
        for t in members(bt):
            if t[0] == "inst":
                names.append(t[1].rsplit(".", 1)[-1])
            elif t[0] == "cls":
                names.append("<class>" + t[1].rsplit(".", 1)[-1])
            elif t[0] == "mod":
                names.append("<module>" + t[1])
        return "|".join(sorted(set(names))) or "?"

    def _root(self, e):
        while isinstance(e, (ast.Attribute, ast.Subscript)):
            e = e.value
        if isinstance(e, ast.Call):
            return self._root(e.func)
        return e

    def _store_effect(self, t, stmt, f, eff, params, selfn, declared_global):
        if isinstance(t, ast.Name):
            if t.id in declared_global:
                e = ("GLOBALWRITE", f"{f.module.name}.{t.id}")
                eff.add(e)
                self.why.setdefault((f.qualname, e), (stmt.lineno, None))
            return
        if isinstance(t, ast.Attribute):
            owner = self._owner(t.value, f)
            if owner.startswith("<class>") or owner.startswith("<module>"):
                e = ("GLOBALWRITE", f"{owner}.{t.attr}")
            else:
                e = ("WRITE", f"{owner}.{t.attr}")
            eff.add(e)
            self.why.setdefault((f.qualname, e), (stmt.lineno, None))
            return
        if isinstance(t, ast.Subscript):
            # item store: find the attribute / parameter / global that holds the container
            holder = t.value
            while isinstance(holder, ast.Subscript):
                holder = holder.value
            if isinstance(holder, ast.Attribute):
                owner = self._owner(holder.value, f)
                kind = "GLOBALWRITE" if owner.startswith(("<class>", "<module>")) else "WRITE"
                e = (kind, f"{owner}.{holder.attr}[]")
                eff.add(e)
                self.why.setdefault((f.qualname, e), (stmt.lineno, None))
            elif isinstance(holder, ast.Name):
                if holder.id in params and holder.id != selfn:
                    e = ("PARAMMUT", holder.id)
                    eff.add(e)
                    self.why.setdefault((f.qualname, e), (stmt.lineno, None))
                elif holder.id not in self.res.env(f) and holder.id in f.module.globals_:
                    e = ("GLOBALWRITE", f"{f.module.name}.{holder.id}[]")
                    eff.add(e)
                    self.why.setdefault((f.qualname, e), (stmt.lineno, None))
                else:
                    src = self._alias_source(f, holder.id)
                    if src is not None:
                        e = ("WRITE", f"alias:{src}[]")
                        eff.add(e)
                        self.why.setdefault((f.qualname, e), (stmt.lineno, None))

    def _alias_source(self, f: FuncInfo, name: str, depth: int = 3) -> str | None:
        """If local `name` may alias state held elsewhere (bound to an attribute / property read or an element
        of one, not to a freshly built container), return the text of that source."""
        if depth <= 0:
            return None
        for n in body_walk(f.node):
            vals = []
            if isinstance(n, ast.Assign) and any(isinstance(t, ast.Name) and t.id == name for t in n.targets):
                vals = [n.value]
            elif isinstance(n, (ast.For, ast.AsyncFor, ast.comprehension)):
                if any(isinstance(t, ast.Name) and t.id == name for t in ast.walk(n.target)):
                    vals = [n.iter]
            for v in vals:
                core = v
                from_loop = not isinstance(n, ast.Assign)
                while isinstance(core, ast.Subscript) or (from_loop and isinstance(core, ast.Call) and isinstance(core.func, ast.Name) and core.func.id in ("enumerate", "reversed", "zip", "iter") and core.args):
                    # the elements a loop draws from enumerate(X) / reversed(X) / zip(X, ..) are X's own elements
                    core = core.value if isinstance(core, ast.Subscript) else core.args[0]
                if isinstance(core, ast.Attribute):
                    return norm(core)
                if isinstance(core, ast.Name) and core.id != name:
                    r = self._alias_source(f, core.id, depth - 1)
                    if r is not None:
                        return r
        return None

    def _mutation_by_method(self, call: ast.Call, external: str, f, eff, params, selfn):
        last = external.rsplit(".", 1)[-1]
        is_mut = (
            (external.startswith("builtins.list.") and last in LIST_MUTATORS)
            or (external.startswith("builtins.dict.") and last in DICT_MUTATORS)
            or (external.startswith("builtins.set.") and last in SET_MUTATORS)
            or (external.startswith("numpy.ndarray.") and last in ("sort", "fill", "resize", "put", "itemset", "partition", "setfield"))
        )
        if not is_mut:
            return
        holder = call.func.value
        while isinstance(holder, ast.Subscript):
            holder = holder.value
        if isinstance(holder, ast.Attribute):
            owner = self._owner(holder.value, f)
            kind = "GLOBALWRITE" if owner.startswith(("<class>", "<module>")) else "WRITE"
            e = (kind, f"{owner}.{holder.attr}.{last}()")
            eff.add(e)
            self.why.setdefault((f.qualname, e), (call.lineno, None))
        elif isinstance(holder, ast.Name):
            if holder.id in params and holder.id != selfn:
                e = ("PARAMMUT", holder.id)
                eff.add(e)
                self.why.setdefault((f.qualname, e), (call.lineno, None))
            elif holder.id not in self.res.env(f) and holder.id in f.module.globals_:
                e = ("GLOBALWRITE", f"{f.module.name}.{holder.id}.{last}()")
                eff.add(e)
                self.why.setdefault((f.qualname, e), (call.lineno, None))
            else:
                src = self._alias_source(f, holder.id)
                if src is not None:
                    e = ("WRITE", f"alias:{src}.{last}()")
                    eff.add(e)
                    self.why.setdefault((f.qualname, e), (call.lineno, None))

    # -------------------------------------------------------------- queries
    def of(self, f: FuncInfo) -> set:
        return self.trans.get(f.qualname, set())

    def has(self, f: FuncInfo, kind: str) -> bool:
        return any(e[0] == kind for e in self.of(f))

    def kinds(self, f: FuncInfo) -> set[str]:
        return {e[0] for e in self.of(f)}

    def chain(self, f: FuncInfo, effect: tuple, limit: int = 12) -> list[str]:
        """Call chain explaining why f has the effect."""
        out = []
        q = f.qualname
        for _ in range(limit):
            w = self.why.get((q, effect))
            if w is None:
                break
            line, via = w
            if via is None:
                fi = self.prog.functions.get(q)
                out.append(f"{fi.short if fi else q} (line {line}): {effect[0]} {effect[1]}")
                break
            fi = self.prog.functions.get(q)
            out.append(f"{fi.short if fi else q} -> {via.split('pyhms.')[-1]}")
            q = via
        return out

    def stmt_effects(self, f: FuncInfo, node: ast.AST) -> set:
        """Transitive effects of the calls syntactically inside `node` (a statement or expression of f)."""
        inside = {id(x) for x in ast.walk(node)}
        out = set()
        for cs in self.res.callsites(f):
            if id(cs.node) in inside:
                for t in cs.targets:
                    out |= self.trans.get(t.qualname, set())
                if cs.external and isinstance(cs.node, ast.Call):
                    out |= {e for e in classify_external(cs.external) if e[0] != "GENCTOR"}
                    for a in list(cs.node.args) + [k.value for k in cs.node.keywords]:
                        for t in members(self.res.type_of(a, f)):
                            if t[0] in ("bound", "func"):
                                fi = self.prog.functions.get(t[1])
                                if fi is None:
                                    continue
                                if t[0] == "bound":
                                    for c in self.res.dispatch(self.prog.classes.get(t[2]), fi.name) or [fi]:
                                        out |= self.trans.get(c.qualname, set())
                                else:
                                    out |= self.trans.get(fi.qualname, set())
        return out
