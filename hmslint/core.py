"""Shared context, obligations, and helpers for the rule modules."""
from __future__ import annotations

import ast
import os
from dataclasses import dataclass, field

from .callgraph import Resolver
from .cfg import CFG
from .effects import Effects
from .model import AnalysisError, ClassInfo, FuncInfo, Inconclusive, Program, body_walk, norm

OK = "ok"
VIOLATION = "violation"
INCONCLUSIVE = "inconclusive"


@dataclass
class Ob:
    """One rule applied to one discovered subject."""

    rule: str
    subject: str  # qualified function / class / site description
    loc: str  # file:line
    status: str = OK
    detail: str = ""
    witness: list[str] = field(default_factory=list)
    construct: str = ""  # normalised text of the offending / checked construct (for keys)
    trivial: bool = False  # vacuous match (nothing to decide)

    @property
    def key(self) -> str:
        return f"{self.rule}|{self.subject}|{self.construct}"

    def to_json(self) -> dict:
        d = {"rule": self.rule, "subject": self.subject, "loc": self.loc, "status": self.status}
        if self.detail:
            d["detail"] = self.detail
        if self.witness:
            d["witness"] = self.witness
        if self.construct:
            d["construct"] = self.construct
        return d


class Ctx:
    """Lazily built analysis artefacts for one run."""

    def __init__(self, repo_root: str) -> None:
        self.repo_root = repo_root
        self.prog = Program(repo_root)
        self._res: Resolver | None = None
        self._eff: Effects | None = None
        self._cfg: dict[str, CFG] = {}
        self.notes: list[str] = []
        self.counters: dict[str, int] = {}

    @property
    def res(self) -> Resolver:
        if self._res is None:
            self._res = Resolver(self.prog)
        return self._res

    @property
    def eff(self) -> Effects:
        if self._eff is None:
            self._eff = Effects(self.prog, self.res)
        return self._eff

    def cfg(self, f: FuncInfo) -> CFG:
        if f.qualname not in self._cfg:
            self._cfg[f.qualname] = CFG(f.node)
            self.count("cfgs_built")
        return self._cfg[f.qualname]

    def count(self, key: str, n: int = 1) -> None:
        self.counters[key] = self.counters.get(key, 0) + n

    # ------------------------------------------------------------ role queries
    def concrete_demes(self) -> list[ClassInfo]:
        base = self.prog.cls("AbstractDeme")
        return [c for c in self.prog.subclasses(base) if not self.prog.is_abstract_class(c)]

    def wrappers(self) -> list[ClassInfo]:
        base = self.prog.cls("ProblemWrapper")
        return [base] + self.prog.subclasses(base)

    def ob(self, rule: str, f: FuncInfo | ClassInfo | None, node: ast.AST | None = None, **kw) -> Ob:
        if isinstance(f, FuncInfo):
            subj = f.qualname.replace("pyhms.", "", 1)
            loc = f"{f.module.relpath}:{getattr(node, 'lineno', f.node.lineno)}"
        elif isinstance(f, ClassInfo):
            subj = f.qualname.replace("pyhms.", "", 1)
            loc = f"{f.module.relpath}:{getattr(node, 'lineno', f.node.lineno)}"
        else:
            subj = kw.pop("subject", "?")
            loc = kw.pop("loc", "?")
        if "construct" not in kw and node is not None:
            kw["construct"] = norm(node)[:160]
        return Ob(rule=rule, subject=subj, loc=loc, **kw)


def require(cond: bool, msg: str) -> None:
    if not cond:
        raise AnalysisError(msg)


# ---------------------------------------------------------------- small AST helpers
def is_self_attr(e: ast.AST, attr: str | None = None, selfn: str = "self") -> bool:
    return (
        isinstance(e, ast.Attribute)
        and isinstance(e.value, ast.Name)
        and e.value.id == selfn
        and (attr is None or e.attr == attr)
    )


def attr_chain(e: ast.AST) -> list[str] | None:
    """['self', '_history'] for self._history; None if not a pure Name/Attribute chain."""
    parts = []
    while isinstance(e, ast.Attribute):
        parts.append(e.attr)
        e = e.value
    if isinstance(e, ast.Name):
        parts.append(e.id)
        return list(reversed(parts))
    return None


def call_name(c: ast.Call) -> str:
    return norm(c.func)


def stmt_calls(node: ast.AST) -> list[ast.Call]:
    return [n for n in ast.walk(node) if isinstance(n, ast.Call)]


def assigned_names(stmt: ast.AST) -> list[str]:
    out = []
    tgts = []
    if isinstance(stmt, ast.Assign):
        tgts = stmt.targets
    elif isinstance(stmt, (ast.AugAssign, ast.AnnAssign)):
        tgts = [stmt.target]
    elif isinstance(stmt, (ast.For, ast.AsyncFor)):
        tgts = [stmt.target]
    for t in tgts:
        for n in ast.walk(t):
            if isinstance(n, ast.Name):
                out.append(n.id)
    for n in ast.walk(stmt):
        if isinstance(n, ast.NamedExpr) and isinstance(n.target, ast.Name):
            out.append(n.target.id)
    return out


def const_value(e: ast.AST):
    if isinstance(e, ast.Constant):
        return e.value
    if isinstance(e, ast.UnaryOp) and isinstance(e.op, ast.USub) and isinstance(e.operand, ast.Constant):
        return -e.operand.value
    return None


def parents_map(root: ast.AST) -> dict[int, ast.AST]:
    out = {}
    for n in ast.walk(root):
        for ch in ast.iter_child_nodes(n):
            out[id(ch)] = n
    return out


def local_defs(f: FuncInfo) -> dict[str, list[ast.AST]]:
    """name -> list of value expressions assigned to it in f (flow-insensitive); For targets map
    to ('iter', expr) wrappers are not included."""
    out: dict[str, list[ast.AST]] = {}
    for n in body_walk(f.node):
        if isinstance(n, ast.Assign):
            for t in n.targets:
                if isinstance(t, ast.Name):
                    out.setdefault(t.id, []).append(n.value)
        elif isinstance(n, ast.AnnAssign) and isinstance(n.target, ast.Name) and n.value is not None:
            out.setdefault(n.target.id, []).append(n.value)
        elif isinstance(n, ast.NamedExpr) and isinstance(n.target, ast.Name):
            out.setdefault(n.target.id, []).append(n.value)
        elif isinstance(n, ast.AugAssign) and isinstance(n.target, ast.Name):
            out.setdefault(n.target.id, []).append(n)
    return out


def expand_local(e: ast.AST, defs: dict[str, list[ast.AST]], depth: int = 4) -> list[ast.AST]:
    """If e is a local name with definitions, return the defining expressions (recursively);
    otherwise [e]."""
    if depth <= 0:
        return [e]
    if isinstance(e, ast.Name) and e.id in defs:
        out = []
        for d in defs[e.id]:
            if isinstance(d, ast.AugAssign):
                out.append(d)
            else:
                out.extend(expand_local(d, defs, depth - 1))
        return out
    return [e]


class _Subst(ast.NodeTransformer):
    def __init__(self, defs, depth):
        self.defs = defs
        self.depth = depth

    def visit_Name(self, node):
        if isinstance(node.ctx, ast.Load) and node.id in self.defs and len(self.defs[node.id]) == 1 and self.depth > 0:
            d = self.defs[node.id][0]
            if not isinstance(d, ast.AugAssign):
                import copy

                return _Subst(self.defs, self.depth - 1).visit(copy.deepcopy(d))
        return node


def canon(e: ast.AST, defs: dict[str, list[ast.AST]] | None = None, depth: int = 4) -> str:
    """Normalised text of e with single-definition locals substituted by their definitions, no spaces."""
    import copy

    if e is None:
        return ""
    t = copy.deepcopy(e)
    if defs:
        t = _Subst(defs, depth).visit(t)
    try:
        return ast.unparse(t).replace(" ", "")
    except Exception:  # noqa: BLE001
        return norm(e).replace(" ", "")
