"""Shared context, obligations, and helpers for the rule modules."""
from __future__ import annotations

import ast
import re
import os
from dataclasses import dataclass, field

from .callgraph import Resolver
from .cfg import CFG
from .effects import Effects
from .model import AnalysisError, ClassInfo, FuncInfo, Inconclusive, Program, body_walk, norm

OK = "ok"
VIOLATION = "violation"
INCONCLUSIVE = "inconclusive"


@dataclass
class Ob:
    """One rule applied to one discovered subject."""

    rule: str
    subject: str  # qualified function / class / site description
    loc: str  # file:line
    status: str = OK
    detail: str = ""
    witness: list[str] = field(default_factory=list)
    construct: str = ""  # normalised text of the offending / checked construct (for keys)
    trivial: bool = False  # vacuous match (nothing to decide)

    @property
    def key(self) -> str:
        return f"{self.rule}|{self.subject}|{self.construct}"

    def to_json(self) -> dict:
        d = {"rule": self.rule, "subject": self.subject, "loc": self.loc, "status": self.status}
        if self.detail:
            d["detail"] = self.detail
        if self.witness:
            d["witness"] = self.witness
        if self.construct:
            d["construct"] = self.construct
        return d


class Ctx:
    """Lazily built analysis artefacts for one run."""

    def __init__(self, repo_root: str) -> None:
        self.repo_root = repo_root
        self.prog = Program(repo_root)
        self._res: Resolver | None = None
        self._eff: Effects | None = None
        self._cfg: dict[str, CFG] = {}
        self.notes: list[str] = []
        self.counters: dict[str, int] = {}

    @property
    def res(self) -> Resolver:
        if self._res is None:
            self._res = Resolver(self.prog)
        return self._res

    @property
    def eff(self) -> Effects:
        if self._eff is None:
            self._eff = Effects(self.prog, self.res)
        return self._eff

    def cfg(self, f: FuncInfo) -> CFG:
        if f.qualname not in self._cfg:
            self._cfg[f.qualname] = CFG(f.node)
            self.count("cfgs_built")
        return self._cfg[f.qualname]

    def count(self, key: str, n: int = 1) -> None:
        self.counters[key] = self.counters.get(key, 0) + n

    # ------------------------------------------------------------ role queries
    def concrete_demes(self) -> list[ClassInfo]:
        base = self.prog.cls("AbstractDeme")
        return [c for c in self.prog.subclasses(base) if not self.prog.is_abstract_class(c)]

    def wrappers(self) -> list[ClassInfo]:
        base = self.prog.cls("ProblemWrapper")
        return [base] + self.prog.subclasses(base)

    def ob(self, rule: str, f: FuncInfo | ClassInfo | None, node: ast.AST | None = None, **kw) -> Ob:
        if isinstance(f, FuncInfo):
            subj = f.qualname.replace("pyhms.", "", 1)
            loc = f"{f.module.relpath}:{getattr(node, 'lineno', f.node.lineno)}"
        elif isinstance(f, ClassInfo):
            subj = f.qualname.replace("pyhms.", "", 1)
            loc = f"{f.module.relpath}:{getattr(node, 'lineno', f.node.lineno)}"
        else:
            subj = kw.pop("subject", "?")
            loc = kw.pop("loc", "?")
        if "construct" not in kw and node is not None:
            kw["construct"] = norm(node)[:160]
        return Ob(rule=rule, subject=subj, loc=loc, **kw)


def require(cond: bool, msg: str) -> None:
    if not cond:
        raise AnalysisError(msg)


# ---------------------------------------------------------------- small AST helpers
def is_self_attr(e: ast.AST, attr: str | None = None, selfn: str = "self") -> bool:
    return (
        isinstance(e, ast.Attribute)
        and isinstance(e.value, ast.Name)
        and e.value.id == selfn
        and (attr is None or e.attr == attr)
    )


def attr_chain(e: ast.AST) -> list[str] | None:
    """['self', '_history'] for self._history; None if not a pure Name/Attribute chain."""
    parts = []
    while isinstance(e, ast.Attribute):
        parts.append(e.attr)
        e = e.value
    if isinstance(e, ast.Name):
        parts.append(e.id)
        return list(reversed(parts))
    return None


def call_name(c: ast.Call) -> str:
    return norm(c.func)


def stmt_calls(node: ast.AST) -> list[ast.Call]:
    return [n for n in ast.walk(node) if isinstance(n, ast.Call)]


def assigned_names(stmt: ast.AST) -> list[str]:
    out = []
    tgts = []
    if isinstance(stmt, ast.Assign):
        tgts = stmt.targets
    elif isinstance(stmt, (ast.AugAssign, ast.AnnAssign)):
        tgts = [stmt.target]
    elif isinstance(stmt, (ast.For, ast.AsyncFor)):
        tgts = [stmt.target]
    for t in tgts:
        for n in ast.walk(t):
            if isinstance(n, ast.Name):
                out.append(n.id)
    for n in ast.walk(stmt):
        if isinstance(n, ast.NamedExpr) and isinstance(n.target, ast.Name):
            out.append(n.target.id)
    return out


def const_value(e: ast.AST):
    if isinstance(e, ast.Constant):
        return e.value
    if isinstance(e, ast.UnaryOp) and isinstance(e.op, ast.USub) and isinstance(e.operand, ast.Constant):
        return -e.operand.value
    return None


def parents_map(root: ast.AST) -> dict[int, ast.AST]:
    out = {}
    for n in ast.walk(root):
        for ch in ast.iter_child_nodes(n):
            out[id(ch)] = n
    return out


def local_defs(f: FuncInfo) -> dict[str, list[ast.AST]]:
    """name -> list of value expressions assigned to it in f (flow-insensitive); For targets map
    to ('iter', expr) wrappers are not included."""
    out: dict[str, list[ast.AST]] = {}
    for n in body_walk(f.node):
        if isinstance(n, ast.Assign):
            for t in n.targets:
                if isinstance(t, ast.Name):
                    out.setdefault(t.id, []).append(n.value)
        elif isinstance(n, ast.AnnAssign) and isinstance(n.target, ast.Name) and n.value is not None:
            out.setdefault(n.target.id, []).append(n.value)
        elif isinstance(n, ast.NamedExpr) and isinstance(n.target, ast.Name):
            out.setdefault(n.target.id, []).append(n.value)
        elif isinstance(n, ast.AugAssign) and isinstance(n.target, ast.Name):
            out.setdefault(n.target.id, []).append(n)
    # definitions in source (execution) order: body_walk's own order is unspecified
    for k in out:
        out[k].sort(key=lambda d: getattr(d, "_ord", 0))
    # a name assigned once in each arm of one if/else is a conditional definition
    for n in body_walk(f.node):
        if isinstance(n, ast.If) and len(n.body) == 1 and len(n.orelse) == 1:
            a, b = n.body[0], n.orelse[0]
            if isinstance(a, ast.Assign) and isinstance(b, ast.Assign) and len(a.targets) == len(b.targets) == 1 and isinstance(a.targets[0], ast.Name) and isinstance(b.targets[0], ast.Name) and a.targets[0].id == b.targets[0].id:
                nm = a.targets[0].id
                if nm in out and len(out[nm]) == 2 and a.value in out[nm] and b.value in out[nm]:
                    ie = ast.IfExp(test=n.test, body=a.value, orelse=b.value)
                    ast.copy_location(ie, n)
                    ast.fix_missing_locations(ie)
                    out[nm] = [ie]
    return out


def expand_local(e: ast.AST, defs: dict[str, list[ast.AST]], depth: int = 4) -> list[ast.AST]:
    """If e is a local name with definitions, return the defining expressions (recursively);
    otherwise [e]."""
    if depth <= 0:
        return [e]
    if isinstance(e, ast.Name) and e.id in defs:
        out = []
        for d in defs[e.id]:
            if isinstance(d, ast.AugAssign):
                out.append(d)
            else:
                out.extend(expand_local(d, defs, depth - 1))
        return out
    return [e]


class _Subst(ast.NodeTransformer):
    def __init__(self, defs, depth):
        self.defs = defs
        self.depth = depth

    def visit_Name(self, node):
        if isinstance(node.ctx, ast.Load) and node.id in self.defs and len(self.defs[node.id]) == 1 and self.depth > 0:
            d = self.defs[node.id][0]
            if not isinstance(d, ast.AugAssign):
                import copy

                return _Subst(self.defs, self.depth - 1).visit(copy.deepcopy(d))
        return node


def canon(e: ast.AST, defs: dict[str, list[ast.AST]] | None = None, depth: int = 4) -> str:
    """Normalised text of e with single-definition locals substituted by their definitions, no spaces."""
    import copy

    if e is None:
        return ""
    t = copy.deepcopy(e)
    if defs:
        t = _Subst(defs, depth).visit(t)
    try:
        return ast.unparse(t).replace(" ", "")
    except Exception:  # noqa: BLE001
        return norm(e).replace(" ", "")


# ---------------------------------------------------------------- propositional equivalence of conditions
def _bool_atoms(e, atoms):
    if isinstance(e, ast.BoolOp):
        for v in e.values:
            _bool_atoms(v, atoms)
    elif isinstance(e, ast.UnaryOp) and isinstance(e.op, ast.Not):
        _bool_atoms(e.operand, atoms)
    elif isinstance(e, ast.IfExp):
        _bool_atoms(e.test, atoms)
        _bool_atoms(e.body, atoms)
        _bool_atoms(e.orelse, atoms)
    elif isinstance(e, ast.Constant) and isinstance(e.value, bool):
        pass
    else:
        # normalise comparison atoms so that `a >= b` and `not a < b` share an atom
        atoms.add(_atom_key(e)[0])


_NEG_CMP = {ast.Lt: ast.GtE, ast.GtE: ast.Lt, ast.Gt: ast.LtE, ast.LtE: ast.Gt, ast.Eq: ast.NotEq, ast.NotEq: ast.Eq, ast.Is: ast.IsNot, ast.IsNot: ast.Is, ast.In: ast.NotIn, ast.NotIn: ast.In}
_CANON_CMP = (ast.Lt, ast.LtE, ast.Eq, ast.Is, ast.In)


_INTY_ATTR = re.compile(r"(^|_)(level|height|count|size|idx|index|limit|no|len|length|evaluations|nlevels|dim|dimensions|age)$")


def _is_inty(e) -> bool:
    """Expressions the repo uses as integers (levels, heights, counters, lengths) — only these get integer
    comparison normalisation."""
    if isinstance(e, ast.Constant):
        return isinstance(e.value, int) and not isinstance(e.value, bool)
    if isinstance(e, ast.Call):
        return norm(e.func) == "len"
    if isinstance(e, ast.Attribute):
        return bool(_INTY_ATTR.search(e.attr))
    if isinstance(e, ast.Name):
        return bool(_INTY_ATTR.search(e.id))
    if isinstance(e, ast.BinOp) and isinstance(e.op, (ast.Add, ast.Sub, ast.Mult)):
        return _is_inty(e.left) and _is_inty(e.right)
    return False


def _split_offset(e):
    """e == base + c for an int constant c -> (base, c)"""
    if isinstance(e, ast.BinOp) and isinstance(e.op, (ast.Add, ast.Sub)) and isinstance(e.right, ast.Constant) and isinstance(e.right.value, int) and not isinstance(e.right.value, bool):
        b, c = _split_offset(e.left)
        return b, c + (e.right.value if isinstance(e.op, ast.Add) else -e.right.value)
    if isinstance(e, ast.BinOp) and isinstance(e.op, ast.Add) and isinstance(e.left, ast.Constant) and isinstance(e.left.value, int) and not isinstance(e.left.value, bool):
        b, c = _split_offset(e.right)
        return b, c + e.left.value
    if isinstance(e, ast.Constant) and isinstance(e.value, int) and not isinstance(e.value, bool):
        return ast.Constant(value=0), e.value
    return e, 0


def _atom_key(e):
    """(key text, polarity) — comparisons are keyed by a canonical operator so that negated forms share the atom.
    NOTE: a < b and a >= b are complements only for totally ordered operands (not NaN); used for guards on counters / sizes."""
    if isinstance(e, ast.Compare) and len(e.ops) == 1:
        op = type(e.ops[0])
        l, r = e.left, e.comparators[0]
        if op in (ast.Gt, ast.GtE):  # a > b  ==  b < a
            op = {ast.Gt: ast.Lt, ast.GtE: ast.LtE}[op]
            l, r = r, l
        if op in (ast.Lt, ast.LtE) and _is_inty(l) and _is_inty(r):
            # integer operands: a <= b + k  ==  a < b + k + 1; constants are moved to the right-hand side and the
            # two bases ordered textually, so `x > h - 2` and `x >= h - 1` share one atom
            (lb, lc), (rb, rc) = _split_offset(l), _split_offset(r)
            k = rc - lc + (1 if op is ast.LtE else 0)
            lt, rt = canon(lb), canon(rb)
            if lt <= rt:
                return (f"int:{lt}<{rt}+{k}", True)
            return (f"int:{rt}<{lt}+{1 - k}", False)
        if op in _CANON_CMP:
            # a <= b == not (b < a)
            if op is ast.LtE:
                return (f"{canon(r)}<{canon(l)}", False)
            return (f"{canon(l)}{ {ast.Lt: '<', ast.Eq: '==', ast.Is: ' is ', ast.In: ' in '}[op] }{canon(r)}", True)
        if op in _NEG_CMP and _NEG_CMP[op] in _CANON_CMP:
            k, p = _atom_key(ast.Compare(left=l, ops=[_NEG_CMP[op]()], comparators=[r]))
            return (k, not p)
    if isinstance(e, ast.Call) and norm(e.func) == "bool" and len(e.args) == 1:
        return _atom_key(e.args[0])
    return (canon(e), True)


def _bool_eval(e, env):
    if isinstance(e, ast.BoolOp):
        vals = [_bool_eval(v, env) for v in e.values]
        return all(vals) if isinstance(e.op, ast.And) else any(vals)
    if isinstance(e, ast.UnaryOp) and isinstance(e.op, ast.Not):
        return not _bool_eval(e.operand, env)
    if isinstance(e, ast.IfExp):
        return _bool_eval(e.body, env) if _bool_eval(e.test, env) else _bool_eval(e.orelse, env)
    if isinstance(e, ast.Constant) and isinstance(e.value, bool):
        return e.value
    k, pol = _atom_key(e)
    return env[k] if pol else not env[k]


def bool_equiv(e1: ast.AST, e2: ast.AST, max_atoms: int = 8) -> bool | None:
    """Are two conditions equivalent as boolean functions of their atomic sub-conditions (truth-table check)?
    None if there are too many atoms."""
    atoms: set[str] = set()
    _bool_atoms(e1, atoms)
    _bool_atoms(e2, atoms)
    atoms = sorted(atoms)
    if len(atoms) > max_atoms:
        return None
    for mask in range(1 << len(atoms)):
        env = {a: bool(mask >> i & 1) for i, a in enumerate(atoms)}
        if bool(_bool_eval(e1, env)) != bool(_bool_eval(e2, env)):
            return False
    return True


def parse_cond(text: str) -> ast.expr:
    return ast.parse(text, mode="eval").body


def cond_is(e: ast.AST, text: str, defs: dict | None = None) -> bool:
    """Is condition e (after substituting single-definition locals) propositionally equivalent to `text`?"""
    import copy as _copy

    e2 = _Subst(defs, 4).visit(_copy.deepcopy(e)) if defs else e
    return bool_equiv(e2, parse_cond(text)) is True


# ---------------------------------------------------------------- keyword arguments incl. **dict-literal locals
def subst_expr(e: ast.AST, defs: dict | None, depth: int = 4) -> ast.AST:
    """Copy of e with single-definition locals replaced by their definitions (the AST counterpart of canon's text)."""
    import copy as _copy

    return _Subst(defs or {}, depth).visit(_copy.deepcopy(e))


def effective_keywords(call: ast.Call, defs: dict[str, list[ast.AST]] | None = None) -> dict[str, ast.AST]:
    """Keyword arguments of a call, including those passed through `**name` when `name` is a local bound once to a
    dict literal / dict(...) call (later item stores `name['k'] = v` are merged too when found in `defs['name[]']`)."""
    out = {}
    for k in call.keywords:
        if k.arg is not None:
            out[k.arg] = k.value
        elif isinstance(k.value, (ast.Dict, ast.Call)) or (defs is not None and isinstance(k.value, ast.Name) and k.value.id in defs and len(defs[k.value.id]) == 1):
            d = k.value if isinstance(k.value, (ast.Dict, ast.Call)) else defs[k.value.id][0]
            if isinstance(d, ast.Dict):
                for kk, vv in zip(d.keys, d.values):
                    if isinstance(kk, ast.Constant) and isinstance(kk.value, str):
                        out.setdefault(kk.value, vv)
            elif isinstance(d, ast.Call) and norm(d.func) == "dict":
                for k2 in d.keywords:
                    if k2.arg:
                        out.setdefault(k2.arg, k2.value)
    return out


def eval_under(e: ast.AST, defs: dict, assume: str, truth: bool, depth: int = 0) -> ast.AST:
    """Resolve e through single-definition locals and conditional expressions whose test is (propositionally) the
    assumption `assume` or its negation, taking the arm selected by `truth`."""
    if depth > 10 or e is None:
        return e
    if isinstance(e, ast.IfExp):
        t = e.test
        td = _Subst(defs, 4).visit(__import__("copy").deepcopy(t)) if defs else t
        a = parse_cond(assume)
        if bool_equiv(td, a) is True:
            return eval_under(e.body if truth else e.orelse, defs, assume, truth, depth + 1)
        if bool_equiv(td, ast.UnaryOp(op=ast.Not(), operand=a)) is True:
            return eval_under(e.orelse if truth else e.body, defs, assume, truth, depth + 1)
        return e
    if isinstance(e, ast.Name) and defs and e.id in defs and len(defs[e.id]) == 1 and not isinstance(defs[e.id][0], ast.AugAssign):
        return eval_under(defs[e.id][0], defs, assume, truth, depth + 1)
    return e


def resolve_constant(ctx, f, e: ast.AST, depth: int = 3) -> ast.AST:
    """Follow a name through single-definition locals and module-level constants (`NAME = <literal>`)."""
    while depth > 0 and isinstance(e, ast.Name):
        depth -= 1
        defs = local_defs(f) if f is not None and f.name != "<module>" else {}
        if e.id in defs and len(defs[e.id]) == 1 and not isinstance(defs[e.id][0], ast.AugAssign):
            e = defs[e.id][0]
            continue
        g = getattr(f.module, "globals_", {}).get(e.id) if f is not None else None
        if g is not None and getattr(g, "value", None) is not None:
            e = g.value
            continue
        break
    return e
