"""Semantics-preserving AST normalisation applied to every module before analysis, so that the rules see one canonical
shape for code that maintainers write in several equivalent ways:

  N1  x = x + e            ->  x += e                     (also -, *)
  N2  if c: T = a          ->  T = a if c else b          (single simple assignments / returns to the same target;
      else: T = b                                          `if c: return a` directly followed by `return b` as well)
  N3  acc = []; for v in it: [if c:] acc.append(e)        ->  acc = [e for v in it if c]       (also extend, nested loops,
      acc = 0;  for v in it: [if c:] acc += e             ->  acc = sum(e for v in it if c)     dict stores, any/all loops)
  N4  for ...: if c: continue; REST                       ->  for ...: if not c: REST          (guard inversion)
      def f(): ...; if c: return; REST                    ->  ...; if not c: REST              (bare early return, top level)
  N5  for k, v in D.items(): BODY                         ->  for k in D.keys(): BODY[v := D[k]]   (v read-only)
      for v in D.values(): BODY                           ->  for __k in D.keys(): BODY[v := D[__k]]
  N6  inlining of private helpers that are not analysis anchors (methods `self._h(..)`, static/class helpers, module
      functions `_h(..)`) whose body is straight-line: expression helpers into expressions, procedure helpers into
      statement position, boolean helpers built from nested `if ..: return` into boolean expressions
  N7  a, b = x, y  ->  a = x; b = y  (independent simple tuple assignments)

Every transformation preserves evaluation order and effects of the analysed program up to duplication of *pure* reads
(helper parameters that are bound to non-trivial argument expressions are first bound to fresh locals).
"""
from __future__ import annotations

import ast
import copy

PURE_CALLS = {"slice", "str", "len", "int", "float", "bool", "abs", "min", "max", "sum", "sorted", "list", "tuple", "set", "dict", "range", "enumerate", "zip", "reversed", "isinstance", "round", "repr", "any", "all"}

PURE_METHODS = {"index", "count", "get", "keys", "values", "items"}  # list / tuple / str queries
_NONMUTATING_ROOTS = {"np", "numpy", "nla", "math", "sla", "scipy", "la", "copy"}

# functions the rule modules address by name: they are analysis anchors and are never inlined away
ANCHORS = {
    "_do_sprout", "_next_child_id", "_is_far_enough", "_is_nbc_far_enough", "_prepare_spanning_tree", "_find_root_nodes",
    "_find_nearest_better", "_history_callback", "_get_mutation_std", "_get_params", "_update_memory", "_transform_weights",
    "_local_optimization", "_hill_valley_function", "_set_threshold", "_find_cluster_center", "_get_correction_factor",
    "_apply_rule2_cut", "_calculate_b", "_get_distances", "_get_nearest_better_distances", "_get_nearest_distances",
    "_get_total_weighted_worse_distances", "_filter_uninteresting_points",
}


def _u(n) -> str:
    return ast.unparse(n)


def _is_simple_expr(e: ast.AST) -> bool:
    """No calls except pure builtins / numpy value constructors; safe to move into a conditional expression."""
    for n in ast.walk(e):
        if isinstance(n, ast.Call):
            f = _u(n.func)
            if f in PURE_CALLS or (f.split(".")[0] in _NONMUTATING_ROOTS and ".random." not in f and len(f.split(".")) > 1):
                continue
            if isinstance(n.func, ast.Attribute) and n.func.attr in PURE_METHODS:
                continue
            return False
        if isinstance(n, (ast.NamedExpr, ast.Yield, ast.YieldFrom, ast.Await, ast.Lambda)):
            return False
    return True


def _names_loaded(n: ast.AST) -> set[str]:
    return {x.id for x in ast.walk(n) if isinstance(x, ast.Name) and isinstance(x.ctx, ast.Load)}


def _names_stored(n: ast.AST) -> set[str]:
    out = {x.id for x in ast.walk(n) if isinstance(x, ast.Name) and isinstance(x.ctx, (ast.Store, ast.Del))}
    for x in ast.walk(n):
        if isinstance(x, ast.NamedExpr) and isinstance(x.target, ast.Name):
            out.add(x.target.id)
    return out


def _leftmost_leaf(e):
    """The sub-expression evaluated first in a condition."""
    while True:
        if isinstance(e, ast.BoolOp):
            e = e.values[0]
        elif isinstance(e, ast.UnaryOp):
            e = e.operand
        elif isinstance(e, ast.Compare):
            e = e.left
        elif isinstance(e, ast.IfExp):
            e = e.test
        else:
            return e


def _negate(c: ast.expr) -> ast.expr:
    if isinstance(c, ast.UnaryOp) and isinstance(c.op, ast.Not):
        return c.operand
    if isinstance(c, ast.Compare) and len(c.ops) == 1:
        inv = {ast.Is: ast.IsNot, ast.IsNot: ast.Is, ast.In: ast.NotIn, ast.NotIn: ast.In, ast.Eq: ast.NotEq, ast.NotEq: ast.Eq}
        t = type(c.ops[0])
        if t in inv:
            return ast.copy_location(ast.Compare(left=c.left, ops=[inv[t]()], comparators=c.comparators), c)
    return ast.copy_location(ast.UnaryOp(op=ast.Not(), operand=c), c)


class _Rename(ast.NodeTransformer):
    def __init__(self, mapping: dict[str, ast.expr]):
        self.mapping = mapping

    def visit_Name(self, node):
        if node.id in self.mapping and isinstance(node.ctx, ast.Load):
            return copy.deepcopy(self.mapping[node.id])
        if node.id in self.mapping and isinstance(self.mapping[node.id], ast.Name):
            return ast.copy_location(ast.Name(id=self.mapping[node.id].id, ctx=node.ctx), node)
        return node


def _subst(node, mapping):
    return _Rename(mapping).visit(copy.deepcopy(node))


def _calls_private_helper(node) -> bool:
    """Does the code call a private, non-anchor function / method (a candidate for inlining)?"""
    for c in ast.walk(node):
        if isinstance(c, ast.Call):
            nm = c.func.id if isinstance(c.func, ast.Name) else c.func.attr if (isinstance(c.func, ast.Attribute) and isinstance(c.func.value, ast.Name)) else None
            if nm and nm.startswith("_") and not nm.startswith("__") and nm not in ANCHORS:
                return True
    return False


class _CompItems(ast.NodeTransformer):
    """N5 for comprehensions: `for k, v in D.items()` -> `for k in D.keys()` with v := D[k]; `for v in D.values()` likewise."""

    def __init__(self):
        self.changed = False

    def _do(self, node, parts):
        self.generic_visit(node)
        gens = node.generators
        for gi, g in enumerate(gens):
            it = g.iter
            if not (isinstance(it, ast.Call) and isinstance(it.func, ast.Attribute) and not it.args and not it.keywords and isinstance(it.func.value, (ast.Name, ast.Attribute))):
                continue
            D = it.func.value
            if it.func.attr == "items" and isinstance(g.target, ast.Tuple) and len(g.target.elts) == 2 and all(isinstance(e, ast.Name) for e in g.target.elts):
                k, v = g.target.elts[0].id, g.target.elts[1].id
            elif it.func.attr == "values" and isinstance(g.target, ast.Name):
                k, v = f"__key_of_{g.target.id}", g.target.id
            else:
                continue
            if k == v:
                continue
            sub = {v: ast.Subscript(value=copy.deepcopy(D), slice=ast.Name(id=k, ctx=ast.Load()), ctx=ast.Load())}
            g.target = ast.Name(id=k, ctx=ast.Store())
            g.iter = ast.Call(func=ast.Attribute(value=copy.deepcopy(D), attr="keys", ctx=ast.Load()), args=[], keywords=[])
            g.ifs = [_subst(c, sub) for c in g.ifs]
            for g2 in gens[gi + 1:]:
                g2.iter = _subst(g2.iter, sub)
                g2.ifs = [_subst(c, sub) for c in g2.ifs]
            for fld in parts:
                setattr(node, fld, _subst(getattr(node, fld), sub))
            self.changed = True
        ast.fix_missing_locations(node)
        return node

    def visit_ListComp(self, node):
        return self._do(node, ("elt",))

    def visit_SetComp(self, node):
        return self._do(node, ("elt",))

    def visit_GeneratorExp(self, node):
        return self._do(node, ("elt",))

    def visit_DictComp(self, node):
        return self._do(node, ("key", "value"))


def _immutable_atom(e) -> bool:
    """A literal constant or a module-level numeric constant such as np.inf / math.pi: the same value wherever it is evaluated."""
    if isinstance(e, ast.Constant):
        return True
    if isinstance(e, ast.UnaryOp) and isinstance(e.op, (ast.USub, ast.UAdd)):
        return _immutable_atom(e.operand)
    if isinstance(e, ast.Attribute) and isinstance(e.value, ast.Name) and e.value.id in ("np", "numpy", "math") and e.attr in ("inf", "nan", "pi", "e", "newaxis", "NINF", "PINF", "Inf", "infty"):
        return True
    return False


class _ChainFlatten(ast.NodeTransformer):
    """`list(chain.from_iterable(X))` / `list(itertools.chain(*X))` -> `[item for part in X for item in part]` (also under
    tuple / set / sum / max / min / any / all / sorted, where the lazy iterator is consumed on the spot)."""

    CONSUMERS = {"list", "tuple", "set", "sum", "max", "min", "any", "all", "sorted", "len"}

    def __init__(self):
        self.changed = False
        self.k = 0

    @staticmethod
    def _chained(e):
        if isinstance(e, ast.Call) and _u(e.func) in ("chain.from_iterable", "itertools.chain.from_iterable") and len(e.args) == 1 and not e.keywords:
            return e.args[0]
        if isinstance(e, ast.Call) and _u(e.func) in ("chain", "itertools.chain") and len(e.args) == 1 and isinstance(e.args[0], ast.Starred) and not e.keywords:
            return e.args[0].value
        return None

    def _gen(self, src, at):
        self.k += 1
        part, item = f"__chain_part_{self.k}", f"__chain_item_{self.k}"
        gens = [ast.comprehension(target=ast.Name(id=part, ctx=ast.Store()), iter=src, ifs=[], is_async=0), ast.comprehension(target=ast.Name(id=item, ctx=ast.Store()), iter=ast.Name(id=part, ctx=ast.Load()), ifs=[], is_async=0)]
        return ast.Name(id=item, ctx=ast.Load()), gens

    def visit_Call(self, node):
        self.generic_visit(node)
        # sum(sum(e for y in Y) for x in X)  ->  sum(e for x in X for y in Y)   (exact arithmetic; evaluation order kept)
        if isinstance(node.func, ast.Name) and node.func.id == "sum" and len(node.args) == 1 and not node.keywords and isinstance(node.args[0], (ast.GeneratorExp, ast.ListComp)):
            outer = node.args[0]
            inner = outer.elt
            if isinstance(inner, ast.Call) and isinstance(inner.func, ast.Name) and inner.func.id == "sum" and len(inner.args) == 1 and not inner.keywords and isinstance(inner.args[0], (ast.GeneratorExp, ast.ListComp)):
                node.args[0] = ast.GeneratorExp(elt=inner.args[0].elt, generators=list(outer.generators) + list(inner.args[0].generators))
                self.changed = True
                return ast.fix_missing_locations(node)
        # dict(filter(lambda kv: C(kv), X.items()))  ->  {k: v for k, v in X.items() if C((k, v))}
        if isinstance(node.func, ast.Name) and node.func.id == "dict" and len(node.args) == 1 and not node.keywords and isinstance(node.args[0], ast.Call) and isinstance(node.args[0].func, ast.Name) and node.args[0].func.id == "filter" and len(node.args[0].args) == 2:
            lam, src = node.args[0].args
            if isinstance(lam, ast.Lambda) and len(lam.args.args) == 1 and isinstance(src, ast.Call) and isinstance(src.func, ast.Attribute) and src.func.attr == "items" and not src.args:
                p_ = lam.args.args[0].arg
                self.k += 1
                kn, vn = f"__filter_key_{self.k}", f"__filter_value_{self.k}"
                ok = True

                class _P(ast.NodeTransformer):
                    def visit_Subscript(self, n2):
                        self.generic_visit(n2)
                        if isinstance(n2.value, ast.Name) and n2.value.id == p_ and isinstance(n2.slice, ast.Constant) and n2.slice.value in (0, 1):
                            return ast.copy_location(ast.Name(id=kn if n2.slice.value == 0 else vn, ctx=ast.Load()), n2)
                        return n2
                cond = _P().visit(copy.deepcopy(lam.body))
                if any(isinstance(x, ast.Name) and x.id == p_ for x in ast.walk(cond)):
                    ok = False
                if ok:
                    comp = ast.DictComp(key=ast.Name(id=kn, ctx=ast.Load()), value=ast.Name(id=vn, ctx=ast.Load()), generators=[ast.comprehension(target=ast.Tuple(elts=[ast.Name(id=kn, ctx=ast.Store()), ast.Name(id=vn, ctx=ast.Store())], ctx=ast.Store()), iter=src, ifs=[cond], is_async=0)])
                    self.changed = True
                    return ast.fix_missing_locations(ast.copy_location(comp, node))
        if isinstance(node.func, ast.Name) and node.func.id in self.CONSUMERS and node.args and not any(isinstance(a, ast.Starred) for a in node.args):
            src = self._chained(node.args[0])
            if src is not None:
                elt, gens = self._gen(src, node)
                self.changed = True
                if node.func.id == "list" and len(node.args) == 1 and not node.keywords:
                    return ast.fix_missing_locations(ast.copy_location(ast.ListComp(elt=elt, generators=gens), node))
                node.args[0] = ast.GeneratorExp(elt=elt, generators=gens)
                return ast.fix_missing_locations(node)
        return node

    def visit_For(self, node):
        self.generic_visit(node)
        # for x in itertools.chain(A, B): BODY   ->   for x in A: BODY; for x in B: BODY    (no break / else, simple A and B)
        if (isinstance(node.iter, ast.Call) and _u(node.iter.func) in ("chain", "itertools.chain") and len(node.iter.args) >= 2 and not node.iter.keywords and not any(isinstance(a, ast.Starred) for a in node.iter.args)
                and all(_is_simple_expr(a) for a in node.iter.args) and not node.orelse and not any(isinstance(x, ast.Break) for st in node.body for x in ast.walk(st))):
            loops = []
            for a in node.iter.args:
                lp = ast.For(target=copy.deepcopy(node.target), iter=a, body=copy.deepcopy(node.body), orelse=[])
                loops.append(ast.fix_missing_locations(ast.copy_location(lp, node)))
            self.changed = True
            return loops
        src = self._chained(node.iter)
        if src is not None and not node.orelse and not any(isinstance(x, ast.Break) for st in node.body for x in ast.walk(st)):
            self.k += 1
            part = f"__chain_part_{self.k}"
            inner = ast.For(target=node.target, iter=ast.Name(id=part, ctx=ast.Load()), body=node.body, orelse=[])
            outer = ast.For(target=ast.Name(id=part, ctx=ast.Store()), iter=src, body=[inner], orelse=[])
            ast.copy_location(inner, node)
            self.changed = True
            return ast.fix_missing_locations(ast.copy_location(outer, node))
        return node

    def _split_generators(self, node):
        self.generic_visit(node)
        gens = []
        for g in node.generators:
            src = self._chained(g.iter)
            if src is not None and not g.is_async:
                self.k += 1
                part = f"__chain_part_{self.k}"
                gens.append(ast.comprehension(target=ast.Name(id=part, ctx=ast.Store()), iter=src, ifs=[], is_async=0))
                gens.append(ast.comprehension(target=g.target, iter=ast.Name(id=part, ctx=ast.Load()), ifs=g.ifs, is_async=0))
                self.changed = True
            else:
                gens.append(g)
        node.generators = gens
        # for t in (E for g1 .. gn)   ->   for g1 .. gn   with t := E      (E pure, or t used once)
        k = 0
        while k < len(node.generators):
            g = node.generators[k]
            inner = g.iter
            if isinstance(inner, (ast.GeneratorExp, ast.ListComp)) and isinstance(g.target, ast.Name) and not g.is_async and not any(x.is_async for x in inner.generators):
                t = g.target.id
                rest = [x for gg in node.generators[k + 1:] for x in [gg.iter] + gg.ifs] + g.ifs + ([node.key, node.value] if isinstance(node, ast.DictComp) else [node.elt])
                uses = sum(1 for r_ in rest for x in ast.walk(r_) if isinstance(x, ast.Name) and x.id == t)
                inner_names = set()
                for ig in inner.generators:
                    inner_names |= _names_stored(ig.target)
                outer_names = set()
                for og in node.generators:
                    if og is not g:
                        outer_names |= _names_stored(og.target)
                same_var = isinstance(inner.elt, ast.Name) and inner.elt.id == t
                if (uses <= 1 or _is_simple_expr(inner.elt)) and not ((inner_names - ({t} if same_var else set())) & outer_names) and (t not in inner_names or same_var):
                    m = {t: inner.elt}
                    new_gens = node.generators[:k] + list(inner.generators)
                    if g.ifs:
                        new_gens[-1].ifs = list(new_gens[-1].ifs) + [_subst(c, m) for c in g.ifs]
                    for gg in node.generators[k + 1:]:
                        new_gens.append(ast.comprehension(target=gg.target, iter=_subst(gg.iter, m), ifs=[_subst(c, m) for c in gg.ifs], is_async=gg.is_async))
                    node.generators = new_gens
                    if isinstance(node, ast.DictComp):
                        node.key, node.value = _subst(node.key, m), _subst(node.value, m)
                    else:
                        node.elt = _subst(node.elt, m)
                    self.changed = True
                    continue
            k += 1
        return ast.fix_missing_locations(node)

    visit_ListComp = visit_GeneratorExp = visit_SetComp = visit_DictComp = _split_generators


class _BoolSimplify(ast.NodeTransformer):
    """`True if c else X` -> `c or X`, `X if c else False` -> `c and X`, ... everywhere; `bool(X)` -> X where only the truth
    value is used (if / while tests, operands of not / and / or inside such tests)."""

    def __init__(self):
        self.changed = False

    def visit_IfExp(self, node):
        self.generic_visit(node)
        new = BlockNormalizer._ifexp(node.test, node.body, node.orelse)
        if not isinstance(new, ast.IfExp):
            self.changed = True
            return ast.copy_location(new, node)
        return node

    def visit_Call(self, node):
        """`getattr(X, "name")` with a literal identifier and no default is `X.name`."""
        self.generic_visit(node)
        # (lambda p, q: BODY)(a, b)  ->  BODY[p := a, q := b]   (arguments that are plain names / attributes / constants, each
        # parameter bound exactly once by position, no defaults / varargs, the body does not rebind them)
        if isinstance(node.func, ast.Lambda) and not node.keywords and not any(isinstance(a, ast.Starred) for a in node.args):
            la = node.func.args
            if not (la.vararg or la.kwarg or la.kwonlyargs or la.defaults or la.posonlyargs) and len(la.args) == len(node.args) and all(isinstance(a, (ast.Name, ast.Constant)) or (isinstance(a, ast.Attribute) and isinstance(a.value, ast.Name)) for a in node.args):
                mp = {p_.arg: a for p_, a in zip(la.args, node.args)}
                inner_binds = {x.id for x in ast.walk(node.func.body) if isinstance(x, ast.Name) and isinstance(x.ctx, ast.Store)} | {a_.arg for l_ in ast.walk(node.func.body) if isinstance(l_, ast.Lambda) for a_ in l_.args.args}
                if not (inner_binds & set(mp)):
                    self.changed = True
                    return ast.fix_missing_locations(ast.copy_location(_subst(copy.deepcopy(node.func.body), mp), node))
        # (f if c else g)(args)  ->  f(args) if c else g(args)   (the test is evaluated before the arguments either way)
        if isinstance(node.func, ast.IfExp) and _is_simple_expr(node.func.test):
            a = ast.Call(func=node.func.body, args=node.args, keywords=node.keywords)
            b = ast.Call(func=node.func.orelse, args=copy.deepcopy(node.args), keywords=copy.deepcopy(node.keywords))
            self.changed = True
            return ast.fix_missing_locations(ast.copy_location(ast.IfExp(test=node.func.test, body=a, orelse=b), node))
        # np.array(..).mean(axis=0)  ->  np.mean(np.array(..), axis=0)   (receiver known to be an ndarray)
        if isinstance(node.func, ast.Attribute) and node.func.attr in ("mean", "sum", "min", "max", "std", "var", "all", "any", "argmin", "argmax", "argsort", "prod") and isinstance(node.func.value, ast.Call) and _u(node.func.value.func) in ("np.array", "np.asarray", "np.stack", "np.vstack", "np.concatenate", "numpy.array", "numpy.asarray"):
            self.changed = True
            new = ast.Call(func=ast.Attribute(value=ast.Name(id=_u(node.func.value.func).split(".")[0], ctx=ast.Load()), attr=node.func.attr, ctx=ast.Load()), args=[node.func.value] + list(node.args), keywords=node.keywords)
            return ast.fix_missing_locations(ast.copy_location(new, node))
        if isinstance(node.func, ast.Name) and node.func.id == "getattr" and len(node.args) == 2 and not node.keywords and isinstance(node.args[1], ast.Constant) and isinstance(node.args[1].value, str) and node.args[1].value.isidentifier():
            self.changed = True
            return ast.copy_location(ast.Attribute(value=node.args[0], attr=node.args[1].value, ctx=ast.Load()), node)
        return node

    def visit_Subscript(self, node):
        """`V[slice(a, b)]` -> `V[a:b]`;  `V[A if c else B]` -> `V[A] if c else V[B]` for pure V and c (only one arm is ever
        evaluated, and a pure V reads the same whether it is evaluated before or after c)."""
        self.generic_visit(node)
        sl = node.slice
        if isinstance(sl, ast.Call) and isinstance(sl.func, ast.Name) and sl.func.id == "slice" and not sl.keywords and 1 <= len(sl.args) <= 3 and not any(isinstance(a, ast.Starred) for a in sl.args):
            args = list(sl.args)
            if len(args) == 1:
                args = [ast.Constant(value=None), args[0]]
            parts = [None if (isinstance(a, ast.Constant) and a.value is None) else a for a in args] + [None] * (3 - len(args))
            node.slice = ast.copy_location(ast.Slice(lower=parts[0], upper=parts[1], step=parts[2]), sl)
            self.changed = True
            return node
        def _slicey(e):
            return isinstance(e, ast.Slice) or (isinstance(e, ast.Call) and isinstance(e.func, ast.Name) and e.func.id == "slice")

        if isinstance(sl, ast.IfExp) and _slicey(sl.body) and _slicey(sl.orelse) and isinstance(node.ctx, ast.Load) and _is_simple_expr(node.value) and _is_simple_expr(sl.test):
            a = ast.Subscript(value=node.value, slice=sl.body, ctx=ast.Load())
            b = ast.Subscript(value=copy.deepcopy(node.value), slice=sl.orelse, ctx=ast.Load())
            new = ast.IfExp(test=sl.test, body=self.visit_Subscript(a), orelse=self.visit_Subscript(b))
            self.changed = True
            return ast.fix_missing_locations(ast.copy_location(new, node))
        return node

    @staticmethod
    def _const(e):
        return isinstance(e, ast.Constant) and isinstance(e.value, bool)

    def visit_BoolOp(self, node):
        """exact constant folding: `True and X` -> X, `False and X` -> False, `False or X` -> X, `True or X` -> True"""
        self.generic_visit(node)
        is_and = isinstance(node.op, ast.And)
        vals = []
        for k, v in enumerate(node.values):
            last = k == len(node.values) - 1
            if self._const(v) and not last:
                if v.value == is_and:
                    self.changed = True
                    continue  # neutral element in a non-final position
                vals.append(v)  # absorbing element: nothing after it is evaluated
                self.changed = True
                break
            vals.append(v)
        if len(vals) == 1:
            return vals[0]
        node.values = vals
        return node

    def visit_UnaryOp(self, node):
        self.generic_visit(node)
        if isinstance(node.op, ast.Not) and self._const(node.operand):
            self.changed = True
            return ast.copy_location(ast.Constant(value=not node.operand.value), node)
        return node

    def _truth(self, e):
        """simplifications valid where only the truth value of e is used"""
        if isinstance(e, ast.Call) and isinstance(e.func, ast.Name) and e.func.id == "bool" and len(e.args) == 1 and not e.keywords:
            self.changed = True
            return self._truth(e.args[0])
        if isinstance(e, ast.BoolOp):
            is_and = isinstance(e.op, ast.And)
            vals = [self._truth(v) for v in e.values]
            # a neutral constant in final position (`X and True`, `X or False`) does not change the truth value
            while len(vals) > 1 and self._const(vals[-1]) and vals[-1].value == is_and:
                vals.pop()
                self.changed = True
            if len(vals) == 1:
                return vals[0]
            e.values = vals
        elif isinstance(e, ast.UnaryOp) and isinstance(e.op, ast.Not):
            e.operand = self._truth(e.operand)
            if isinstance(e.operand, ast.UnaryOp) and isinstance(e.operand.op, ast.Not):
                self.changed = True
                return e.operand.operand
            if self._const(e.operand):
                self.changed = True
                return ast.copy_location(ast.Constant(value=not e.operand.value), e)
        return e

    def visit_If(self, node):
        self.generic_visit(node)
        node.test = self._truth(node.test)
        return node

    def visit_While(self, node):
        self.generic_visit(node)
        node.test = self._truth(node.test)
        return node

    def visit_comprehension(self, node):
        self.generic_visit(node)
        ifs = []
        for c in node.ifs:
            c = self._truth(c)
            if self._const(c) and c.value is True:
                self.changed = True
                continue
            ifs.append(c)
        node.ifs = ifs
        return node


def _calls_evaluated_before(x: ast.AST, v: str):
    """Call nodes of expression x that have been executed by the time the (single) load of name v is evaluated:
    the calls met earlier in left-to-right order that do not enclose v (a call runs after its arguments)."""
    order = []

    def dfs(n, anc):
        order.append((n, anc))
        for ch in ast.iter_child_nodes(n):
            dfs(ch, anc + (n,))

    dfs(x, ())
    idx = next((i for i, (n, _) in enumerate(order) if isinstance(n, ast.Name) and n.id == v and isinstance(n.ctx, ast.Load)), None)
    if idx is None:
        return [c for c in ast.walk(x) if isinstance(c, ast.Call)]
    ancestors = {id(a) for a in order[idx][1]}
    return [n for n, _ in order[:idx] if isinstance(n, ast.Call) and id(n) not in ancestors]


def _calls_before_node(x: ast.AST, target: ast.AST):
    """Call nodes of expression x executed before the call node `target` starts (left-to-right, not enclosing it)."""
    order = []

    def dfs(n, anc):
        order.append((n, anc))
        for ch in ast.iter_child_nodes(n):
            dfs(ch, anc + (n,))

    dfs(x, ())
    idx = next((i for i, (n, _) in enumerate(order) if n is target), None)
    if idx is None:
        return [c for c in ast.walk(x) if isinstance(c, ast.Call)]
    ancestors = {id(a) for a in order[idx][1]}
    return [n for n, _ in order[:idx] if isinstance(n, ast.Call) and id(n) not in ancestors]


def _evaluated_exactly_once(root: ast.AST, target: ast.AST) -> bool:
    """Is `target` evaluated exactly once whenever `root` is (not under a short-circuit operand, a conditional arm, a
    lambda, or the repeated part of a comprehension)?"""
    def dfs(n):
        if n is target:
            return True
        if isinstance(n, ast.BoolOp):
            return bool(n.values) and dfs(n.values[0])
        if isinstance(n, ast.IfExp):
            return dfs(n.test)
        if isinstance(n, ast.Lambda):
            return False
        if isinstance(n, (ast.ListComp, ast.SetComp, ast.GeneratorExp, ast.DictComp)):
            return not isinstance(n, ast.GeneratorExp) and bool(n.generators) and dfs(n.generators[0].iter)
        if isinstance(n, ast.Compare) and len(n.ops) > 1:
            return dfs(n.left) or dfs(n.comparators[0])
        return any(dfs(ch) for ch in ast.iter_child_nodes(n))
    return dfs(root)


class _ScopeCounts:
    """Loads / stores of every name in one function (nested functions and comprehensions included)."""

    def __init__(self, fn):
        self.fn = fn
        a = fn.args
        self.params = [x.arg for x in a.posonlyargs + a.args + a.kwonlyargs] + ([a.vararg.arg] if a.vararg else []) + ([a.kwarg.arg] if a.kwarg else [])
        self.recount()

    def recount(self):
        self.loads, self.stores = {}, {}
        for x in ast.walk(self.fn):
            if isinstance(x, ast.Name):
                d = self.loads if isinstance(x.ctx, ast.Load) else self.stores
                d[x.id] = d.get(x.id, 0) + 1
            elif isinstance(x, ast.arg):
                self.stores[x.arg] = self.stores.get(x.arg, 0) + 1
            elif isinstance(x, (ast.Global, ast.Nonlocal)):
                for nm in x.names:
                    self.stores[nm] = self.stores.get(nm, 0) + 2




def _nonmutating_call(c: ast.Call) -> bool:
    f = _u(c.func)
    if f in PURE_CALLS:
        return True
    root = f.split(".")[0]
    # random draws only advance the generator, which no call-free expression reads
    return root in _NONMUTATING_ROOTS or root in ("nrand", "random")


def _first_evaluated(e):
    """The sub-expression Python evaluates first in e."""
    while True:
        if isinstance(e, ast.BoolOp):
            e = e.values[0]
        elif isinstance(e, ast.UnaryOp):
            e = e.operand
        elif isinstance(e, ast.BinOp):
            e = e.left
        elif isinstance(e, ast.Compare):
            e = e.left
        elif isinstance(e, ast.IfExp):
            e = e.test
        elif isinstance(e, ast.Call):
            if isinstance(e.func, ast.Name):
                # the callee name is looked up first, then the first argument is evaluated
                if e.args and not isinstance(e.args[0], ast.Starred):
                    e = e.args[0]
                else:
                    return e
            else:
                e = e.func
        elif isinstance(e, (ast.Attribute, ast.Subscript, ast.Starred)):
            e = e.value
        elif isinstance(e, (ast.List, ast.Tuple, ast.Set)) and e.elts:
            e = e.elts[0]
        elif isinstance(e, (ast.ListComp, ast.SetComp, ast.GeneratorExp, ast.DictComp)):
            e = e.generators[0].iter
        else:
            return e


def _single_direct_use(x, v) -> bool:
    """v is loaded exactly once in x, and not inside a lambda / the repeated part of a comprehension."""
    uses = [n for n in ast.walk(x) if isinstance(n, ast.Name) and n.id == v]
    if len(uses) != 1:
        return False
    for n in ast.walk(x):
        if isinstance(n, ast.Lambda) and any(u is uses[0] for u in ast.walk(n)):
            return False
        if isinstance(n, (ast.ListComp, ast.SetComp, ast.GeneratorExp, ast.DictComp)):
            first_iter = n.generators[0].iter
            inside = any(u is uses[0] for u in ast.walk(n))
            in_first = any(u is uses[0] for u in ast.walk(first_iter))
            if inside and not in_first:
                return False
            # (the first iterable of a generator expression is evaluated when the expression is created, like a list's)
    return True


# ------------------------------------------------------------------------------------------------ block-level passes
class BlockNormalizer:
    """N1-N5, N7 applied to every statement list."""

    def __init__(self):
        self.changed = False

    def run(self, tree: ast.AST) -> None:
        self.scope = None
        ci = _CompItems()
        ci.visit(tree)
        bs = _BoolSimplify()
        bs.visit(tree)
        cf = _ChainFlatten()
        cf.visit(tree)
        ast.fix_missing_locations(tree)
        self.changed = self.changed or ci.changed or bs.changed or cf.changed
        self._walk(tree, None)

    def _walk(self, n, scope):
        if isinstance(n, (ast.FunctionDef, ast.AsyncFunctionDef)):
            scope = _ScopeCounts(n)
        for fld in ("body", "orelse", "finalbody"):
            b = getattr(n, fld, None)
            if isinstance(b, list) and b and isinstance(b[0], ast.stmt):
                self.scope = scope
                new = self.block(b, n, fld)
                if new is not b:
                    setattr(n, fld, new)
                    if scope is not None:
                        scope.recount()
        for ch in ast.iter_child_nodes(n):
            self._walk(ch, scope)

    # -- one block
    def block(self, stmts, owner, fld):
        out = list(stmts)
        out = self.n7_tuple_assign(out)
        out = self.n1_aug(out)
        out = self.n4_guards(out, owner, fld)
        out = self.n5_items(out)
        out = self.n13_field_names_in_loops(out)
        out = self.n3_accumulators(out)
        out = self.n2_ifexp(out)
        out = self.n8_flag_fold(out)
        out = self.n9_inline_single_use_test(out)
        out = self.n10_forward_single_use(out)
        out = self.n11_coalesce_alias(out)
        out = self.n12_copy_of_dead_name(out, owner, fld)
        out = self.n14_attribute_alias(out, owner, fld)
        out = self.n20_worklist_loop(out)
        out = self.n21_unflatten_pairs(out)
        out = self.n28_enumerate_to_index(out)
        out = self.n29_optional_value_guard(out)
        out = self.n30_copy_sort_truncate(out)
        out = self.n31_sentinel_iter_loop(out)
        if len(out) != len(stmts) or any(a is not b for a, b in zip(out, stmts)):
            self.changed = True
            return out if out else [ast.Pass()]
        return stmts

    def n31_sentinel_iter_loop(self, stmts):
        """`for _ in iter(lambda: E, S): BODY`  ->  `while E != S: BODY`  (the two-argument iter calls the function before each
        pass and stops when it returns the sentinel); with E = bool(X) and S = True / False the test is `not X` / `X`."""
        out = []
        for s in stmts:
            if isinstance(s, ast.For) and not s.orelse and isinstance(s.target, ast.Name) and isinstance(s.iter, ast.Call) and _u(s.iter.func) == "iter" and len(s.iter.args) == 2 and not s.iter.keywords and isinstance(s.iter.args[0], ast.Lambda) and not s.iter.args[0].args.args and isinstance(s.iter.args[1], ast.Constant):
                used = any(isinstance(x, ast.Name) and x.id == s.target.id and isinstance(x.ctx, ast.Load) for b in s.body for x in ast.walk(b))
                if not used:
                    E, S = s.iter.args[0].body, s.iter.args[1]
                    if isinstance(E, ast.Call) and _u(E.func) == "bool" and len(E.args) == 1 and isinstance(S.value, bool):
                        test = ast.UnaryOp(op=ast.Not(), operand=E.args[0]) if S.value is True else E.args[0]
                    else:
                        test = ast.Compare(left=E, ops=[ast.NotEq()], comparators=[S])
                    new = ast.copy_location(ast.While(test=test, body=s.body, orelse=[]), s)
                    ast.fix_missing_locations(new)
                    out.append(new)
                    continue
            out.append(s)
        return out

    def n7_tuple_assign(self, stmts):
        out = []
        for s in stmts:
            if isinstance(s, ast.Assign) and len(s.targets) == 1 and isinstance(s.targets[0], ast.Tuple) and isinstance(s.value, ast.Tuple) and len(s.targets[0].elts) == len(s.value.elts) and all(isinstance(t, ast.Name) for t in s.targets[0].elts):
                tnames = {t.id for t in s.targets[0].elts}
                if not any(_names_loaded(v) & tnames for v in s.value.elts) and all(_is_simple_expr(v) or True for v in s.value.elts):
                    for t, v in zip(s.targets[0].elts, s.value.elts):
                        out.append(ast.copy_location(ast.Assign(targets=[t], value=v), s))
                    continue
            # `self.a, self.b = x, True`: attribute targets, call-free values that read none of the targets
            if isinstance(s, ast.Assign) and len(s.targets) == 1 and isinstance(s.targets[0], ast.Tuple) and isinstance(s.value, ast.Tuple) and len(s.targets[0].elts) == len(s.value.elts) and all(isinstance(t, ast.Name) or (isinstance(t, ast.Attribute) and isinstance(t.value, ast.Name)) for t in s.targets[0].elts) and any(isinstance(t, ast.Attribute) for t in s.targets[0].elts):
                tnames = {t.id for t in s.targets[0].elts if isinstance(t, ast.Name)}
                tattrs = {_u(t) for t in s.targets[0].elts if isinstance(t, ast.Attribute)}
                clean = all(not any(isinstance(x, ast.Call) for x in ast.walk(v)) and not (_names_loaded(v) & tnames) and not any(isinstance(x, ast.Attribute) and _u(x) in tattrs for x in ast.walk(v)) for v in s.value.elts)
                if clean:
                    for t, v in zip(s.targets[0].elts, s.value.elts):
                        out.append(ast.copy_location(ast.Assign(targets=[t], value=v), s))
                    continue
            out.append(s)
        return out

    def n1_aug(self, stmts):
        out = []
        for s in stmts:
            if isinstance(s, ast.Assign) and len(s.targets) == 1 and isinstance(s.targets[0], (ast.Name, ast.Attribute)) and isinstance(s.value, ast.BinOp) and isinstance(s.value.op, (ast.Add, ast.Sub, ast.Mult)):
                t = s.targets[0]
                if _u(s.value.left) == _u(t):
                    tgt = copy.deepcopy(t)
                    tgt.ctx = ast.Store()
                    out.append(ast.copy_location(ast.AugAssign(target=tgt, op=s.value.op, value=s.value.right), s))
                    continue
            out.append(s)
        return out

    def n4_guards(self, stmts, owner, fld):
        in_loop_body = isinstance(owner, (ast.For, ast.While)) and fld == "body"
        in_func_body = isinstance(owner, (ast.FunctionDef, ast.AsyncFunctionDef)) and fld == "body"
        for i, s in enumerate(stmts):
            if isinstance(s, ast.If) and not s.orelse and len(s.body) == 1:
                rest = stmts[i + 1:]
                if not rest:
                    continue
                only = s.body[0]
                if in_loop_body and isinstance(only, ast.Continue):
                    new_if = ast.copy_location(ast.If(test=_negate(s.test), body=rest, orelse=[]), s)
                    return stmts[:i] + [new_if]
                if in_func_body and isinstance(only, ast.Return) and only.value is None and not any(isinstance(x, ast.Return) and x.value is not None for r in rest for x in ast.walk(r)):
                    new_if = ast.copy_location(ast.If(test=_negate(s.test), body=rest, orelse=[]), s)
                    return stmts[:i] + [new_if]
                # `if c: return V ; REST ; return V`  (same plain name / constant V)  ->  `if not c: REST ; return V`
                if in_func_body and isinstance(only, ast.Return) and isinstance(only.value, (ast.Name, ast.Constant)) and len(rest) >= 2 and isinstance(rest[-1], ast.Return) and rest[-1].value is not None and _u(rest[-1].value) == _u(only.value):
                    mid = rest[:-1]
                    reassigned = isinstance(only.value, ast.Name) and any(only.value.id in _names_stored(m) for m in mid)
                    if not reassigned and not any(isinstance(x, ast.Return) for m in mid for x in ast.walk(m)):
                        new_if = ast.copy_location(ast.If(test=_negate(s.test), body=mid, orelse=[]), s)
                        return stmts[:i] + [new_if, rest[-1]]
        return stmts

    def n5_items(self, stmts):
        out = []
        for s in stmts:
            if isinstance(s, ast.For) and isinstance(s.iter, ast.Call) and isinstance(s.iter.func, ast.Attribute) and not s.iter.args and not s.orelse:
                D = s.iter.func.value
                if isinstance(D, (ast.Name, ast.Attribute)):
                    dn = _u(D)
                    stored = set()
                    for b in s.body:
                        stored |= _names_stored(b)
                    rebinding_D = isinstance(D, ast.Name) and D.id in stored

                    def leaks(name):
                        # the loop variable is read after the loop (Python keeps the last binding): the loop cannot be re-keyed
                        if self.scope is None:
                            return False
                        inside = sum(1 for b in s.body for x in ast.walk(b) if isinstance(x, ast.Name) and x.id == name and isinstance(x.ctx, ast.Load))
                        return self.scope.loads.get(name, 0) > inside

                    if s.iter.func.attr == "items" and isinstance(s.target, ast.Tuple) and len(s.target.elts) == 2 and all(isinstance(e, ast.Name) for e in s.target.elts):
                        k, v = s.target.elts
                        if v.id not in stored and k.id not in stored and not rebinding_D and not leaks(v.id):
                            sub = ast.Subscript(value=copy.deepcopy(D), slice=ast.Name(id=k.id, ctx=ast.Load()), ctx=ast.Load())
                            body = [_subst(b, {v.id: sub}) for b in s.body]
                            it = ast.Call(func=ast.Attribute(value=copy.deepcopy(D), attr="keys", ctx=ast.Load()), args=[], keywords=[])
                            new = ast.copy_location(ast.For(target=ast.Name(id=k.id, ctx=ast.Store()), iter=it, body=body, orelse=[]), s)
                            ast.fix_missing_locations(new)
                            out.append(new)
                            continue
                    if s.iter.func.attr == "values" and isinstance(s.target, ast.Name) and s.target.id not in stored and not rebinding_D and not leaks(s.target.id):
                        kname = f"__key_of_{s.target.id}"
                        sub = ast.Subscript(value=copy.deepcopy(D), slice=ast.Name(id=kname, ctx=ast.Load()), ctx=ast.Load())
                        body = [_subst(b, {s.target.id: sub}) for b in s.body]
                        it = ast.Call(func=ast.Attribute(value=copy.deepcopy(D), attr="keys", ctx=ast.Load()), args=[], keywords=[])
                        new = ast.copy_location(ast.For(target=ast.Name(id=kname, ctx=ast.Store()), iter=it, body=body, orelse=[]), s)
                        ast.fix_missing_locations(new)
                        out.append(new)
                        continue
            out.append(s)
        return out

    # ---- accumulator loops
    def _loop_to_generators(self, loop: ast.For, acc_names: set[str]):
        """Flatten nested `for`/`if` whose innermost body is a list of accumulator updates.
        Returns (generators, innermost statements) or None."""
        gens = []
        cur = loop
        while True:
            if cur.orelse:
                return None
            g = ast.comprehension(target=copy.deepcopy(cur.target), iter=copy.deepcopy(cur.iter), ifs=[], is_async=0)
            gens.append(g)
            body = cur.body
            while len(body) == 1 and isinstance(body[0], ast.If) and not body[0].orelse:
                g.ifs.append(copy.deepcopy(body[0].test))
                body = body[0].body
            if len(body) == 1 and isinstance(body[0], ast.For):
                cur = body[0]
                continue
            return gens, body

    def n3_accumulators(self, stmts):
        out = list(stmts)
        i = 0
        while i < len(out):
            s = out[i]
            if isinstance(s, ast.For):
                res = self._loop_to_generators(s, set())
                if res is not None and _calls_private_helper(s):
                    res = None  # leave the statement form to the inliner (N6); folded in a later round if the call goes away
                if res is not None:
                    gens, inner = res
                    repl = self._fold_loop(out, i, s, gens, inner)
                    if repl is None:
                        repl = self._fold_running_extreme(out, i, s, gens, inner)
                    if repl is None:
                        repl = self._fold_any_all(out, i, s, gens, inner)
                    if repl is not None:
                        out = repl
                        continue
            i += 1
        return out

    def _fold_loop(self, stmts, i, loop, gens, inner):
        """inner: statements of the innermost body. Each must be an update of an accumulator initialised just before the loop."""
        if not inner or any(isinstance(x, (ast.Break, ast.Continue)) for st in inner for x in ast.walk(st)):
            return self._fold_any_all(stmts, i, loop, gens, inner)
        loop_vars = set()
        for g in gens:
            loop_vars |= _names_stored(g.target)
        updates = []
        for st in inner:
            u = self._update_of(st)
            if u is None:
                return None
            updates.append(u)
        accs = [u[1] for u in updates]
        if len(set(accs)) != len(accs):
            return None
        # find the initialisations directly before the loop (allow other accumulators' inits and unrelated simple assigns between)
        inits = {}
        j = i - 1
        scanned = []
        while j >= 0 and len(inits) < len(accs):
            p = stmts[j]
            if isinstance(p, (ast.Assign, ast.AnnAssign)) and isinstance(p.targets[0] if isinstance(p, ast.Assign) else p.target, ast.Name):
                tn = (p.targets[0] if isinstance(p, ast.Assign) else p.target).id
                if tn in accs and tn not in inits:
                    inits[tn] = (j, p)
                    j -= 1
                    continue
                # unrelated simple assignment not touching accumulators / loop iterables
                val = p.value
                # (the folded comprehension stays at the loop's position, so what these statements store is seen by it as before)
                if val is not None and not (_names_loaded(p) & set(accs)):
                    scanned.append(p)
                    j -= 1
                    continue
            break
        if set(inits) != set(accs):
            return None
        # accumulators must not be read inside the loop other than by their own update
        for u in updates:
            kind, acc, payload = u
            others_read = set()
            for g in gens:
                others_read |= _names_loaded(g.iter)
                for c in g.ifs:
                    others_read |= _names_loaded(c)
            for u2 in updates:
                for x in (u2[2] if isinstance(u2[2], tuple) else (u2[2],)):
                    others_read |= _names_loaded(x)
            if acc in others_read:
                return None
        new_assigns = []
        for kind, acc, payload in updates:
            j0, init = inits[acc]
            iv = init.value
            g2 = [copy.deepcopy(g) for g in gens]
            if kind == "append" and isinstance(iv, ast.List) and not iv.elts:
                val = ast.ListComp(elt=payload, generators=g2)
            elif kind == "extend" and isinstance(iv, ast.List) and not iv.elts:
                tv = ast.Name(id=f"__item_of_{acc}", ctx=ast.Store())
                g2.append(ast.comprehension(target=tv, iter=payload, ifs=[], is_async=0))
                val = ast.ListComp(elt=ast.Name(id=f"__item_of_{acc}", ctx=ast.Load()), generators=g2)
            elif kind == "add" and isinstance(iv, ast.Constant) and iv.value == 0 and not isinstance(iv.value, bool):
                val = ast.Call(func=ast.Name(id="sum", ctx=ast.Load()), args=[ast.GeneratorExp(elt=payload, generators=g2)], keywords=[])
            elif kind == "setitem" and isinstance(iv, ast.Dict) and not iv.keys:
                val = ast.DictComp(key=payload[0], value=payload[1], generators=g2)
            else:
                return None
            a = ast.Assign(targets=[ast.Name(id=acc, ctx=ast.Store())], value=val)
            ast.copy_location(a, loop)
            ast.fix_missing_locations(a)
            new_assigns.append(a)
        drop = {j0 for j0, _ in inits.values()}
        res = [s for k, s in enumerate(stmts[:i]) if k not in drop] + new_assigns + stmts[i + 1:]
        return res

    def _fold_running_extreme(self, stmts, i, loop, gens, inner):
        """acc = INIT; for ..: [c = E]; if acc is INIT or c > acc: acc = c    ->   acc = max((E for ..), default=INIT)
        (strict comparison only: like max(), the first of several equal maxima is kept; `<` gives min).  INIT is None or a
        sentinel name.  Also the if / elif spelling of the same test."""
        if self.scope is None or not inner or len(inner) > 2:
            return None
        cdef = None
        if len(inner) == 2:
            a0 = inner[0]
            if not (isinstance(a0, ast.Assign) and len(a0.targets) == 1 and isinstance(a0.targets[0], ast.Name)):
                return None
            cdef = a0
        st = inner[-1]
        if not isinstance(st, ast.If):
            return None

        def assign_of(body):
            if len(body) == 1 and isinstance(body[0], ast.Assign) and len(body[0].targets) == 1 and isinstance(body[0].targets[0], ast.Name):
                return body[0].targets[0].id, body[0].value
            return None

        tests = None
        a1 = assign_of(st.body)
        if a1 is None:
            return None
        acc, cexpr = a1
        if not st.orelse and isinstance(st.test, ast.BoolOp) and isinstance(st.test.op, ast.Or) and len(st.test.values) == 2:
            tests = st.test.values
        elif len(st.orelse) == 1 and isinstance(st.orelse[0], ast.If) and not st.orelse[0].orelse:
            a2 = assign_of(st.orelse[0].body)
            if a2 is None or a2[0] != acc or _u(a2[1]) != _u(cexpr):
                return None
            tests = [st.test, st.orelse[0].test]
        if tests is None:
            return None
        t_init, t_cmp = tests
        if not (isinstance(t_init, ast.Compare) and len(t_init.ops) == 1 and isinstance(t_init.ops[0], ast.Is) and isinstance(t_init.left, ast.Name) and t_init.left.id == acc):
            return None
        init_e = t_init.comparators[0]
        if not ((isinstance(init_e, ast.Constant) and init_e.value is None) or isinstance(init_e, ast.Name)):
            return None
        if not (isinstance(t_cmp, ast.Compare) and len(t_cmp.ops) == 1 and isinstance(t_cmp.ops[0], (ast.Gt, ast.Lt))):
            return None
        l, r, gt = _u(t_cmp.left), _u(t_cmp.comparators[0]), isinstance(t_cmp.ops[0], ast.Gt)
        if l == _u(cexpr) and r == acc:
            fn = "max" if gt else "min"
        elif l == acc and r == _u(cexpr):
            fn = "min" if gt else "max"
        else:
            return None
        elt = cexpr
        if cdef is not None:
            cn = cdef.targets[0].id
            if not (isinstance(cexpr, ast.Name) and cexpr.id == cn):
                return None
            # the local candidate must not be used outside this loop body
            inside = sum(1 for x in ast.walk(loop) if isinstance(x, ast.Name) and x.id == cn)
            if self.scope.loads.get(cn, 0) + self.scope.stores.get(cn, 0) != inside:
                return None
            elt = cdef.value
        elif not _is_simple_expr(cexpr):
            return None  # evaluated up to three times per iteration in the loop form
        loop_vars = set()
        for g in gens:
            loop_vars |= _names_stored(g.target)
        if acc in loop_vars or acc in _names_loaded(elt) or any(acc in _names_loaded(g.iter) or any(acc in _names_loaded(c) for c in g.ifs) for g in gens):
            return None
        # the initialisation right before the loop (unrelated simple assignments may sit in between)
        j = i - 1
        init_j = None
        while j >= 0:
            p_ = stmts[j]
            if isinstance(p_, ast.Assign) and len(p_.targets) == 1 and isinstance(p_.targets[0], ast.Name):
                if p_.targets[0].id == acc:
                    init_j = j
                    break
                if acc not in _names_loaded(p_):
                    j -= 1
                    continue
            break
        if init_j is None or _u(stmts[init_j].value) != _u(init_e):
            return None
        if isinstance(init_e, ast.Name) and self.scope.stores.get(init_e.id, 0) != 1:
            return None
        call = ast.Call(func=ast.Name(id=fn, ctx=ast.Load()), args=[ast.GeneratorExp(elt=copy.deepcopy(elt), generators=[copy.deepcopy(g) for g in gens])], keywords=[ast.keyword(arg="default", value=copy.deepcopy(init_e))])
        a = ast.Assign(targets=[ast.Name(id=acc, ctx=ast.Store())], value=call)
        ast.copy_location(a, loop)
        ast.fix_missing_locations(a)
        return [x for k, x in enumerate(stmts[:i]) if k != init_j] + [a] + stmts[i + 1:]

    @staticmethod
    def _update_of(st):
        if isinstance(st, ast.Expr) and isinstance(st.value, ast.Call) and isinstance(st.value.func, ast.Attribute) and isinstance(st.value.func.value, ast.Name) and len(st.value.args) == 1 and not st.value.keywords:
            if st.value.func.attr in ("append", "extend"):
                return (st.value.func.attr, st.value.func.value.id, st.value.args[0])
        if isinstance(st, ast.AugAssign) and isinstance(st.target, ast.Name) and isinstance(st.op, ast.Add):
            return ("add", st.target.id, st.value)
        if isinstance(st, ast.Assign) and len(st.targets) == 1 and isinstance(st.targets[0], ast.Subscript) and isinstance(st.targets[0].value, ast.Name):
            return ("setitem", st.targets[0].value.id, (st.targets[0].slice, st.value))
        return None

    def _fold_any_all(self, stmts, i, loop, gens, inner):
        """for v in it: if c: return True   followed by   return False   -> return any(c for v in it)  (and the all() dual)"""
        if i + 1 >= len(stmts) or not isinstance(stmts[i + 1], ast.Return):
            return None
        tail = stmts[i + 1].value
        # after flattening, `if c: return True` leaves c in the last generator's ifs and inner == [Return True]
        if len(inner) == 1 and isinstance(inner[0], ast.Return) and isinstance(inner[0].value, ast.Constant) and isinstance(tail, ast.Constant) and isinstance(inner[0].value.value, bool) and isinstance(tail.value, bool) and inner[0].value.value != tail.value and gens[-1].ifs:
            g2 = [copy.deepcopy(g) for g in gens]
            conds = g2[-1].ifs
            g2[-1].ifs = []
            c = conds[0] if len(conds) == 1 else ast.BoolOp(op=ast.And(), values=conds)
            if inner[0].value.value is True:
                call = ast.Call(func=ast.Name(id="any", ctx=ast.Load()), args=[ast.GeneratorExp(elt=c, generators=g2)], keywords=[])
            else:
                call = ast.Call(func=ast.Name(id="all", ctx=ast.Load()), args=[ast.GeneratorExp(elt=_negate(c), generators=g2)], keywords=[])
            r = ast.Return(value=call)
            ast.copy_location(r, loop)
            ast.fix_missing_locations(r)
            return stmts[:i] + [r] + stmts[i + 2:]
        return None

    def n8_flag_fold(self, stmts):
        """f = A ; if not f: f = B   ->  f = A or B        f = A ; if f: f = B   ->  f = A and B   (short-circuit preserved)"""
        out = []
        i = 0
        while i < len(stmts):
            s = stmts[i]
            nxt = stmts[i + 1] if i + 1 < len(stmts) else None
            if isinstance(s, ast.Assign) and len(s.targets) == 1 and isinstance(s.targets[0], ast.Name) and isinstance(nxt, ast.If) and not nxt.orelse and len(nxt.body) == 1 and isinstance(nxt.body[0], ast.Assign) and len(nxt.body[0].targets) == 1 and _u(nxt.body[0].targets[0]) == s.targets[0].id:
                f = s.targets[0].id
                t = nxt.test
                op = None
                if isinstance(t, ast.UnaryOp) and isinstance(t.op, ast.Not) and isinstance(t.operand, ast.Name) and t.operand.id == f:
                    op = ast.Or()
                elif isinstance(t, ast.Name) and t.id == f:
                    op = ast.And()
                if op is not None and f not in _names_loaded(nxt.body[0].value):
                    new = ast.Assign(targets=[s.targets[0]], value=ast.BoolOp(op=op, values=[s.value, nxt.body[0].value]))
                    ast.copy_location(new, s)
                    ast.fix_missing_locations(new)
                    out.append(new)
                    i += 2
                    continue
            out.append(s)
            i += 1
        return out

    def n9_inline_single_use_test(self, stmts):
        """v = E ; if <test using v once>: ...   ->   if <test with E>: ...   when v is not used anywhere else in the block
        (E is evaluated at the same point: the assignment directly precedes the test and v occurs first in it)."""
        out = []
        i = 0
        while i < len(stmts):
            s = stmts[i]
            nxt = stmts[i + 1] if i + 1 < len(stmts) else None
            if isinstance(s, ast.Assign) and len(s.targets) == 1 and isinstance(s.targets[0], ast.Name) and isinstance(nxt, (ast.If, ast.While)) and not isinstance(nxt, ast.While):
                v = s.targets[0].id
                uses_in_test = [x for x in ast.walk(nxt.test) if isinstance(x, ast.Name) and x.id == v]
                later = stmts[i + 2:]
                used_elsewhere = any(isinstance(x, ast.Name) and x.id == v for st in later for x in ast.walk(st)) or any(isinstance(x, ast.Name) and x.id == v for st in nxt.body + nxt.orelse for x in ast.walk(st))
                first_name = next((x for x in ast.walk(nxt.test) if isinstance(x, (ast.Name, ast.Call, ast.Attribute))), None)
                leading = _leftmost_leaf(nxt.test)
                if len(uses_in_test) == 1 and not used_elsewhere and isinstance(leading, ast.Name) and leading.id == v and isinstance(s.value, (ast.Call, ast.BoolOp, ast.Compare, ast.Attribute, ast.UnaryOp, ast.IfExp)):
                    new_test = _subst(nxt.test, {v: s.value})
                    new_if = ast.If(test=new_test, body=nxt.body, orelse=nxt.orelse)
                    ast.copy_location(new_if, nxt)
                    ast.fix_missing_locations(new_if)
                    out.append(new_if)
                    i += 2
                    continue
            out.append(s)
            i += 1
        return out

    def n10_forward_single_use(self, stmts):
        """v = E ; <simple statement using v exactly once>  ->  the statement with E in place of v, when v has no other
        definition or use in the whole function and either E is evaluated at the same point (v is the first thing the
        directly following statement evaluates), or E is pure and nothing executed between the definition and the use
        can change what E reads (only assignments of call-free / numpy-only values to other local names)."""
        if self.scope is None:
            return stmts
        stmts = list(stmts)
        i = 0
        while i < len(stmts):
            s = stmts[i]
            if not (isinstance(s, ast.Assign) and len(s.targets) == 1 and isinstance(s.targets[0], ast.Name)):
                i += 1
                continue
            v = s.targets[0].id
            n_loads = self.scope.loads.get(v, 0)
            if n_loads == 2 and self.scope.stores.get(v, 0) == 1 and i + 1 < len(stmts) and _is_simple_expr(s.value) and v not in _names_loaded(s.value):
                # one use in each arm of a conditional expression of the next statement: only one of them is ever evaluated
                nxt = stmts[i + 1]
                if isinstance(nxt, (ast.Assign, ast.Return, ast.Expr, ast.AnnAssign)) and getattr(nxt, "value", None) is not None:
                    hit = None
                    for ie in ast.walk(nxt.value):
                        if isinstance(ie, ast.IfExp):
                            nb = sum(1 for y in ast.walk(ie.body) if isinstance(y, ast.Name) and y.id == v)
                            no = sum(1 for y in ast.walk(ie.orelse) if isinstance(y, ast.Name) and y.id == v)
                            nt = sum(1 for y in ast.walk(ie.test) if isinstance(y, ast.Name) and y.id == v)
                            if nb == 1 and no == 1 and nt == 0:
                                hit = ie
                                break
                    if hit is not None and all(_nonmutating_call(c) for c in ast.walk(nxt.value) if isinstance(c, ast.Call)):
                        nxt.value = _subst(nxt.value, {v: s.value})
                        ast.fix_missing_locations(nxt)
                        del stmts[i]
                        self.scope.recount()
                        continue
            if not (n_loads == 1 and self.scope.stores.get(v, 0) == 1) or v.startswith("__key_of_") or v in _names_loaded(s.value):
                i += 1
                continue
            pure_e = _is_simple_expr(s.value)
            reads = _names_loaded(s.value)
            done = False
            for j in range(i + 1, min(i + 8, len(stmts))):
                nxt = stmts[j]
                holder, fld = None, None
                if isinstance(nxt, (ast.Assign, ast.AugAssign, ast.Return, ast.Expr)) or (isinstance(nxt, ast.AnnAssign) and nxt.value is not None):
                    holder, fld = nxt, "value"
                elif isinstance(nxt, ast.For):
                    holder, fld = nxt, "iter"
                x = getattr(holder, fld, None) if holder is not None else None
                uses_here = any(isinstance(n, ast.Name) and n.id == v for n in ast.walk(nxt))
                if uses_here:
                    if x is not None and _single_direct_use(x, v):
                        first = _first_evaluated(x)
                        same_point = (j == i + 1 or pure_e) and isinstance(first, ast.Name) and first.id == v and not isinstance(nxt, ast.AugAssign)
                        pure_move = (pure_e and all(_nonmutating_call(c) for c in _calls_evaluated_before(x, v))) or _immutable_atom(s.value)
                        if same_point or pure_move:
                            setattr(holder, fld, _subst(x, {v: s.value}))
                            ast.fix_missing_locations(holder)
                            del stmts[i]
                            self.scope.recount()
                            done = True
                    break
                # a statement between the definition and the use: only harmless local assignments may be skipped
                if _immutable_atom(s.value) and not isinstance(nxt, (ast.FunctionDef, ast.ClassDef, ast.For, ast.While, ast.If, ast.Try, ast.With)):
                    continue
                if not pure_e:
                    break
                if not (isinstance(nxt, (ast.Assign, ast.AnnAssign)) and getattr(nxt, "value", None) is not None):
                    break
                tg = nxt.targets if isinstance(nxt, ast.Assign) else [nxt.target]
                if not all(isinstance(t, ast.Name) and t.id not in reads for t in tg):
                    break
                if not all(_nonmutating_call(c) for c in ast.walk(nxt.value) if isinstance(c, ast.Call)):
                    break
            if not done:
                i += 1
        return stmts

    def n20_worklist_loop(self, stmts):
        """L = E; while L: T = L.pop(); BODY   ->   for T in reversed(E): BODY      (`pop(0)`: for T in E)
        when L is used for nothing else in the function and BODY does not mention it: the list is only a cursor."""
        if self.scope is None:
            return stmts
        out = list(stmts)
        i = 1
        while i < len(out):
            w, a = out[i], out[i - 1]
            if (isinstance(w, ast.While) and not w.orelse and isinstance(w.test, ast.Name) and w.body and isinstance(a, ast.Assign) and len(a.targets) == 1 and isinstance(a.targets[0], ast.Name) and a.targets[0].id == w.test.id):
                L = w.test.id
                first = w.body[0]
                if (isinstance(first, ast.Assign) and len(first.targets) == 1 and isinstance(first.value, ast.Call) and isinstance(first.value.func, ast.Attribute) and first.value.func.attr == "pop" and isinstance(first.value.func.value, ast.Name) and first.value.func.value.id == L and not first.value.keywords
                        and (not first.value.args or (len(first.value.args) == 1 and isinstance(first.value.args[0], ast.Constant) and first.value.args[0].value in (0, -1)))
                        and self.scope.stores.get(L, 0) == 1 and self.scope.loads.get(L, 0) == 2
                        and not any(isinstance(x, ast.Name) and x.id == L for st in w.body[1:] for x in ast.walk(st))
                        and not any(isinstance(x, ast.Name) and x.id == L for x in ast.walk(first.targets[0]))
                        and L not in _names_loaded(a.value)):
                    fwd = bool(first.value.args) and first.value.args[0].value == 0
                    it = a.value if fwd else ast.Call(func=ast.Name(id="reversed", ctx=ast.Load()), args=[a.value], keywords=[])
                    loop = ast.For(target=first.targets[0], iter=it, body=w.body[1:] or [ast.Pass()], orelse=[])
                    ast.copy_location(loop, w)
                    ast.fix_missing_locations(loop)
                    out[i - 1:i + 1] = [loop]
                    self.scope.recount()
                    continue
            i += 1
        return out

    _MUTATORS = {"append", "extend", "insert", "pop", "remove", "clear", "update", "setdefault", "popitem", "sort", "reverse", "add", "discard", "__setitem__", "__delitem__"}

    def n21_unflatten_pairs(self, stmts):
        """for T in [E for g1 .. gn (if c)]: BODY   ->   for g1: .. for gn: if c: BODY   with T := E
        (the comprehension directly in the loop header, or bound just before to a local used nowhere else).  E consists of
        the comprehension's own variables (a name or a tuple of names matched against T).  Materialising the list first and
        producing the elements on the fly visit the same elements in the same order provided BODY cannot change what the
        inner iterables and the filters read: the first iterable is evaluated once before the loop either way; for the rest,
        BODY must not rebind the local names they read, store the attributes they read, call a mutator on the objects they
        are rooted at, or pass those roots to a call (calls made by BODY are otherwise assumed not to write the attributes
        the filters read - for `_hibernating` / `_active` that is exactly what R18.2 / R06.1 establish)."""
        if self.scope is None:
            return stmts
        out = list(stmts)
        i = 0
        while i < len(out):
            lp = out[i]
            tnames = None
            if isinstance(lp, ast.For) and not lp.orelse:
                if isinstance(lp.target, ast.Name):
                    tnames = [lp.target.id]
                elif isinstance(lp.target, ast.Tuple) and all(isinstance(x, ast.Name) for x in lp.target.elts):
                    tnames = [x.id for x in lp.target.elts]
            if tnames is None or not isinstance(lp.iter, (ast.Name, ast.ListComp, ast.GeneratorExp)):
                i += 1
                continue
            if isinstance(lp.iter, ast.Name):
                L = lp.iter.id
                j = next((k for k in range(i - 1, max(i - 6, -1), -1) if isinstance(out[k], (ast.Assign, ast.AnnAssign)) and isinstance(out[k].targets[0] if isinstance(out[k], ast.Assign) else out[k].target, ast.Name) and (out[k].targets[0] if isinstance(out[k], ast.Assign) else out[k].target).id == L), None)
                if j is None or self.scope.stores.get(L, 0) != 1 or self.scope.loads.get(L, 0) != 1 or not isinstance(out[j].value, ast.ListComp):
                    i += 1
                    continue
                comp = out[j].value
            else:
                j = None
                comp = lp.iter
            elts = [comp.elt] if isinstance(comp.elt, ast.Name) else list(comp.elt.elts) if isinstance(comp.elt, ast.Tuple) else None
            bound = set()
            for g in comp.generators:
                bound |= _names_stored(g.target)
            if elts is None or len(elts) != len(tnames) or not all(isinstance(e_, ast.Name) and e_.id in bound for e_ in elts) or len({e_.id for e_ in elts}) != len(elts) or any(g.is_async for g in comp.generators) or len(set(tnames)) != len(tnames):
                i += 1
                continue
            cnames = [e_.id for e_ in elts]
            comp = copy.deepcopy(comp)
            if cnames != tnames:
                others = set()
                for x in ast.walk(comp):
                    if isinstance(x, ast.Name) and x.id not in cnames:
                        others.add(x.id)
                if set(tnames) & others:
                    i += 1
                    continue
                m = dict(zip(cnames, tnames))
                for x in ast.walk(comp):
                    if isinstance(x, ast.Name) and x.id in m:
                        x.id = m[x.id]
            bound = set()
            for g in comp.generators:
                bound |= _names_stored(g.target)
            # what the lazily evaluated parts read
            lazy = [c for g in comp.generators for c in g.ifs] + [g.iter for g in comp.generators[1:]]
            read_names, read_attrs = set(), set()
            for e_ in lazy:
                read_names |= _names_loaded(e_)
                read_attrs |= {x.attr for x in ast.walk(e_) if isinstance(x, ast.Attribute)}
            roots = read_names - bound
            ok = all(_is_simple_expr(e_) or (isinstance(e_, ast.Call) and isinstance(e_.func, ast.Attribute) and e_.func.attr in ("keys", "values", "items") and not e_.args and _is_simple_expr(e_.func.value)) for e_ in lazy)
            between = out[j + 1:i] if j is not None else []
            ok = ok and all(isinstance(b_, (ast.Assign, ast.AnnAssign)) and not (_names_stored(b_) & (roots | bound | _names_loaded(comp))) and all(_nonmutating_call(c) for c in ast.walk(b_) if isinstance(c, ast.Call)) for b_ in between)
            if ok:
                for st in lp.body:
                    for x in ast.walk(st):
                        if isinstance(x, ast.Name) and isinstance(x.ctx, (ast.Store, ast.Del)) and x.id in (roots | bound):
                            ok = False
                        if isinstance(x, ast.Attribute) and isinstance(x.ctx, (ast.Store, ast.Del)) and x.attr in read_attrs:
                            ok = False
                        if isinstance(x, (ast.Subscript, ast.Attribute)) and isinstance(x.ctx, (ast.Store, ast.Del)):
                            r_ = x
                            while isinstance(r_, (ast.Subscript, ast.Attribute)):
                                r_ = r_.value
                            if isinstance(r_, ast.Name) and r_.id in roots and r_.id not in ("self",):
                                ok = False
                        if isinstance(x, ast.Call) and isinstance(x.func, ast.Attribute) and x.func.attr in self._MUTATORS:
                            r_ = x.func.value
                            while isinstance(r_, (ast.Subscript, ast.Attribute)):
                                r_ = r_.value
                            if isinstance(r_, ast.Name) and r_.id in roots and r_.id not in ("self",):
                                ok = False
                        if isinstance(x, ast.Call) and any(isinstance(a_, ast.Name) and a_.id in roots and a_.id != "self" for a_ in list(x.args) + [k.value for k in x.keywords]):
                            ok = False
            if not ok:
                i += 1
                continue
            body = lp.body
            for g in reversed(comp.generators):
                for c in reversed(g.ifs):
                    body = [ast.If(test=c, body=body, orelse=[])]
                body = [ast.For(target=g.target, iter=g.iter, body=body, orelse=[])]
            new_loop = body[0]
            ast.copy_location(new_loop, lp)
            ast.fix_missing_locations(new_loop)
            out[i] = new_loop
            if j is not None:
                del out[j]
            self.scope.recount()
            continue
        return out

    def n28_enumerate_to_index(self, stmts):
        """for i, v in enumerate(X[a:]): BODY   ->   for i in range(len(X[a:])): BODY[v := X[i + a]]      (a >= 0 constant or absent)
        for a simple X whose items BODY does not rebind, and i / v not assigned in BODY: the elements are read by position."""
        out = list(stmts)
        for k, lp in enumerate(out):
            if not (isinstance(lp, ast.For) and not lp.orelse and isinstance(lp.iter, ast.Call) and isinstance(lp.iter.func, ast.Name) and lp.iter.func.id == "enumerate" and len(lp.iter.args) == 1 and not lp.iter.keywords
                    and isinstance(lp.target, ast.Tuple) and len(lp.target.elts) == 2 and all(isinstance(x, ast.Name) for x in lp.target.elts)):
                continue
            src = lp.iter.args[0]
            base, off = src, 0
            if isinstance(src, ast.Subscript) and isinstance(src.slice, ast.Slice) and src.slice.upper is None and src.slice.step is None and isinstance(src.slice.lower, ast.Constant) and isinstance(src.slice.lower.value, int) and src.slice.lower.value >= 0:
                base, off = src.value, src.slice.lower.value
            elif isinstance(src, ast.Subscript) and isinstance(src.slice, ast.Slice) and src.slice.lower is None and src.slice.step is None and src.slice.upper is not None:
                base, off = src.value, 0  # a prefix X[:b]: element i is X[i]
            elif isinstance(src, ast.Subscript):
                continue
            else:
                continue  # plain enumerate(X) is already the canonical way of numbering the levels
            if not (isinstance(base, (ast.Name, ast.Attribute)) and _is_simple_expr(base)) or not any(isinstance(x, ast.Attribute) and x.attr in ("levels", "_levels") for x in ast.walk(base)):
                continue  # only used for the tree's level lists, whose positions the rules reason about
            i_, v_ = lp.target.elts[0].id, lp.target.elts[1].id
            stored = set()
            for st in lp.body:
                stored |= _names_stored(st)
            root = base
            while isinstance(root, ast.Attribute):
                root = root.value
            rebinding = any(isinstance(x, ast.Subscript) and isinstance(x.ctx, (ast.Store, ast.Del)) and _u(x.value) == _u(base) for st in lp.body for x in ast.walk(st))
            if i_ in stored or v_ in stored or rebinding or i_ == v_:
                continue
            idx = ast.Name(id=i_, ctx=ast.Load()) if off == 0 else ast.BinOp(left=ast.Name(id=i_, ctx=ast.Load()), op=ast.Add(), right=ast.Constant(value=off))
            elem = ast.Subscript(value=copy.deepcopy(base), slice=idx, ctx=ast.Load())
            new_body = [_subst(st, {v_: elem}) for st in lp.body]
            new = ast.For(target=ast.Name(id=i_, ctx=ast.Store()), iter=ast.Call(func=ast.Name(id="range", ctx=ast.Load()), args=[ast.Call(func=ast.Name(id="len", ctx=ast.Load()), args=[src], keywords=[])], keywords=[]), body=new_body, orelse=[])
            out[k] = ast.fix_missing_locations(ast.copy_location(new, lp))
            if self.scope is not None:
                self.scope.recount()
        return out

    def n29_optional_value_guard(self, stmts):
        """v = E if C else None; if v is not None: BODY   ->   if C: v = E; BODY
        when E is an arithmetic expression / literal (never None) and v is not used after the `if` nor in an else branch."""
        if self.scope is None:
            return stmts
        out = list(stmts)
        i = 0
        while i + 1 < len(out):
            a, g = out[i], out[i + 1]
            if (isinstance(a, ast.Assign) and len(a.targets) == 1 and isinstance(a.targets[0], ast.Name) and isinstance(a.value, ast.IfExp) and isinstance(g, ast.If) and not g.orelse):
                v = a.targets[0].id
                e, c, none_first = a.value.body, a.value.test, False
                if isinstance(a.value.body, ast.Constant) and a.value.body.value is None:
                    e, none_first = a.value.orelse, True
                elif not (isinstance(a.value.orelse, ast.Constant) and a.value.orelse.value is None):
                    i += 1
                    continue
                cond = _negate(c) if none_first else c
                never_none = isinstance(e, (ast.BinOp, ast.UnaryOp, ast.Tuple, ast.List)) or (isinstance(e, ast.Constant) and e.value is not None) or (isinstance(e, ast.Call) and _u(e.func) in ("len", "int", "float", "max", "min", "sum", "abs"))
                is_guard = isinstance(g.test, ast.Compare) and len(g.test.ops) == 1 and isinstance(g.test.ops[0], ast.IsNot) and _u(g.test.left) == v and isinstance(g.test.comparators[0], ast.Constant) and g.test.comparators[0].value is None
                uses_in_if = sum(1 for x in ast.walk(g) if isinstance(x, ast.Name) and x.id == v)
                if never_none and is_guard and _is_simple_expr(c) and self.scope.stores.get(v, 0) == 1 and self.scope.loads.get(v, 0) == uses_in_if:
                    new_if = ast.If(test=cond, body=[ast.copy_location(ast.Assign(targets=[ast.Name(id=v, ctx=ast.Store())], value=e), a)] + g.body, orelse=[])
                    out[i:i + 2] = [ast.fix_missing_locations(ast.copy_location(new_if, g))]
                    self.scope.recount()
                    continue
            i += 1
        return out

    def n30_copy_sort_truncate(self, stmts):
        """k = list(E) | E.copy() | E[:] | [comprehension];  k.sort(**kw)   ->   k = sorted(E, **kw)
        k = <fresh list>;  del k[a:]                                      ->   k = <fresh list>[:a]
        (k is a fresh list nobody else holds, so sorting / cutting it in place or building the result anew is the same)."""
        out = list(stmts)
        i = 0
        while i + 1 < len(out):
            a, b = out[i], out[i + 1]
            if isinstance(a, ast.Assign) and len(a.targets) == 1 and isinstance(a.targets[0], ast.Name):
                k = a.targets[0].id
                v = a.value
                src = None
                if isinstance(v, ast.Call) and isinstance(v.func, ast.Name) and v.func.id == "list" and len(v.args) == 1 and not v.keywords:
                    src = v.args[0]
                elif isinstance(v, ast.Call) and isinstance(v.func, ast.Attribute) and v.func.attr == "copy" and not v.args and not v.keywords:
                    src = v.func.value
                elif isinstance(v, ast.Subscript) and isinstance(v.slice, ast.Slice) and v.slice.lower is None and v.slice.upper is None and v.slice.step is None:
                    src = v.value
                elif isinstance(v, ast.ListComp):
                    src = v
                fresh = src is not None or (isinstance(v, ast.Call) and isinstance(v.func, ast.Name) and v.func.id == "sorted") or (isinstance(v, ast.Subscript) and isinstance(v.value, ast.Call) and isinstance(v.value.func, ast.Name) and v.value.func.id == "sorted")
                # in-place sort of the fresh copy
                if src is not None and isinstance(b, ast.Expr) and isinstance(b.value, ast.Call) and isinstance(b.value.func, ast.Attribute) and b.value.func.attr == "sort" and isinstance(b.value.func.value, ast.Name) and b.value.func.value.id == k and not b.value.args and k not in _names_loaded(src):
                    new = ast.Assign(targets=[ast.Name(id=k, ctx=ast.Store())], value=ast.Call(func=ast.Name(id="sorted", ctx=ast.Load()), args=[src], keywords=b.value.keywords))
                    out[i:i + 2] = [ast.fix_missing_locations(ast.copy_location(new, a))]
                    if self.scope is not None:
                        self.scope.recount()
                    continue
                # truncation after intermediate statements that only read k inside pure expressions:
                #   k = V; n = f(k); del k[n:]   ->   n = f(V); k = V[:n]
                if fresh and _is_simple_expr(v) and not isinstance(b, ast.Delete):
                    j = i + 1
                    mids = []
                    while j < len(out) and isinstance(out[j], ast.Assign) and len(out[j].targets) == 1 and isinstance(out[j].targets[0], ast.Name) and out[j].targets[0].id != k and _is_simple_expr(out[j].value) and len(mids) < 3:
                        mids.append(out[j])
                        j += 1
                    d = out[j] if j < len(out) else None
                    if mids and isinstance(d, ast.Delete) and len(d.targets) == 1 and isinstance(d.targets[0], ast.Subscript) and isinstance(d.targets[0].value, ast.Name) and d.targets[0].value.id == k and isinstance(d.targets[0].slice, ast.Slice) and d.targets[0].slice.upper is None and d.targets[0].slice.step is None and d.targets[0].slice.lower is not None and not (_names_stored(a) & set().union(*[_names_loaded(m_) for m_ in mids]) - {k}):
                        new_mids = [_subst(m_, {k: v}) for m_ in mids]
                        cut = ast.Subscript(value=copy.deepcopy(v), slice=ast.Slice(lower=None, upper=d.targets[0].slice.lower, step=None), ctx=ast.Load())
                        new = ast.Assign(targets=[ast.Name(id=k, ctx=ast.Store())], value=cut)
                        out[i:j + 1] = [ast.fix_missing_locations(m_) for m_ in new_mids] + [ast.fix_missing_locations(ast.copy_location(new, a))]
                        if self.scope is not None:
                            self.scope.recount()
                        continue
                # truncation of a fresh list by `del k[a:]`
                if fresh and isinstance(b, ast.Delete) and len(b.targets) == 1 and isinstance(b.targets[0], ast.Subscript) and isinstance(b.targets[0].value, ast.Name) and b.targets[0].value.id == k and isinstance(b.targets[0].slice, ast.Slice) and b.targets[0].slice.upper is None and b.targets[0].slice.step is None and b.targets[0].slice.lower is not None:
                    cut = ast.Subscript(value=v, slice=ast.Slice(lower=None, upper=b.targets[0].slice.lower, step=None), ctx=ast.Load())
                    new = ast.Assign(targets=[ast.Name(id=k, ctx=ast.Store())], value=cut)
                    out[i:i + 2] = [ast.fix_missing_locations(ast.copy_location(new, a))]
                    if self.scope is not None:
                        self.scope.recount()
                    continue
            i += 1
        return out

    def n11_coalesce_alias(self, stmts):
        """t = E ; ... uses of t ... ; a = t   ->   a = E ; ... uses of a ...    when t is defined once, every use of t lies
        between its definition and the alias statement in this block, and `a` is not mentioned in between."""
        if self.scope is None:
            return stmts
        stmts = list(stmts)
        j = 0
        while j < len(stmts):
            al = stmts[j]
            if isinstance(al, ast.Assign) and len(al.targets) == 1 and isinstance(al.targets[0], ast.Name) and isinstance(al.value, ast.Name) and al.value.id != al.targets[0].id:
                a, t = al.targets[0].id, al.value.id
                if self.scope.stores.get(t, 0) == 1:
                    i = next((k for k in range(j - 1, -1, -1) if isinstance(stmts[k], ast.Assign) and len(stmts[k].targets) == 1 and isinstance(stmts[k].targets[0], ast.Name) and stmts[k].targets[0].id == t), None)
                    if i is not None:
                        between = stmts[i:j]
                        loads_between = sum(1 for st in between + [al] for x in ast.walk(st) if isinstance(x, ast.Name) and x.id == t and isinstance(x.ctx, ast.Load))
                        a_mentioned = any(isinstance(x, ast.Name) and x.id == a for st in between for x in ast.walk(st))
                        if loads_between == self.scope.loads.get(t, 0) and not a_mentioned and t not in _names_loaded(stmts[i].value):
                            ren = {t: ast.Name(id=a, ctx=ast.Load())}
                            for k in range(i, j):
                                stmts[k] = _Rename(ren).visit(stmts[k])
                                ast.fix_missing_locations(stmts[k])
                            del stmts[j]
                            self.scope.recount()
                            continue
            j += 1
        return stmts

    def n12_copy_of_dead_name(self, stmts, owner, fld):
        """t = a ; ... (a never mentioned again, t never mentioned before)   ->   ... with t renamed to a.
        Only at the top level of a function body (the copy dominates every use of t)."""
        if self.scope is None or not (isinstance(owner, (ast.FunctionDef, ast.AsyncFunctionDef)) and fld == "body"):
            return stmts
        stmts = list(stmts)
        j = 0
        while j < len(stmts):
            al = stmts[j]
            if isinstance(al, ast.Assign) and len(al.targets) == 1 and isinstance(al.targets[0], ast.Name) and isinstance(al.value, ast.Name) and al.value.id != al.targets[0].id:
                t, a = al.targets[0].id, al.value.id
                before, after = stmts[:j], stmts[j + 1:]
                t_before = any(isinstance(x, ast.Name) and x.id == t for st in before for x in ast.walk(st)) or any(isinstance(x, ast.arg) and x.arg == t for x in ast.walk(owner.args))
                a_after = any(isinstance(x, ast.Name) and x.id == a for st in after for x in ast.walk(st))
                nested_def = any(isinstance(x, (ast.FunctionDef, ast.Lambda)) for st in after for x in ast.walk(st))
                if not t_before and not a_after and not nested_def and t.startswith("__"):
                    ren = {t: ast.Name(id=a, ctx=ast.Load())}
                    stmts = before + [_Rename(ren).visit(st) for st in after]
                    for st in stmts:
                        ast.fix_missing_locations(st)
                    self.scope.recount()
                    continue
            j += 1
        return stmts

    def n13_field_names_in_loops(self, stmts):
        """for v in it: t = <attribute / item read> ; REST   ->   for v in it: REST[t := the read]      when t is a loop-local
        name for a field of a loop-invariant-free read (no calls), defined once and used only in this loop body."""
        if self.scope is None:
            return stmts
        out = []
        for s in stmts:
            if isinstance(s, ast.For) and not s.orelse and len(s.body) >= 2:
                first = s.body[0]
                if isinstance(first, ast.Assign) and len(first.targets) == 1 and isinstance(first.targets[0], ast.Name) and isinstance(first.value, (ast.Attribute, ast.Subscript)) and not any(isinstance(x, (ast.Call, ast.NamedExpr)) for x in ast.walk(first.value)):
                    t = first.targets[0].id
                    rest = s.body[1:]
                    loads_in_rest = sum(1 for st in rest for x in ast.walk(st) if isinstance(x, ast.Name) and x.id == t and isinstance(x.ctx, ast.Load))
                    stored_in_rest = set()
                    for st in rest:
                        stored_in_rest |= _names_stored(st)
                    mutated_roots = {r.id for st in rest for tg in ast.walk(st) if isinstance(tg, (ast.Attribute, ast.Subscript)) and isinstance(tg.ctx, ast.Store) for r in ast.walk(tg) if isinstance(r, ast.Name)}
                    reads = _names_loaded(first.value)
                    if self.scope.stores.get(t, 0) == 1 and self.scope.loads.get(t, 0) == loads_in_rest and 1 <= loads_in_rest <= 3 and not (reads & stored_in_rest) and not (reads & mutated_roots) and t not in reads:
                        new_body = [_subst(st, {t: first.value}) for st in rest]
                        new = ast.copy_location(ast.For(target=s.target, iter=s.iter, body=new_body, orelse=[]), s)
                        ast.fix_missing_locations(new)
                        self.scope.recount()
                        out.append(new)
                        continue
            out.append(s)
        return out

    def n14_attribute_alias(self, stmts, owner, fld):
        """t = a.b[.c]  (call-free attribute chain of a name that is never rebound) ; ... t ... t ...   ->   ... a.b ... a.b ...
        at the top level of a function body, when t is stored once, read a few times, only after its definition, and no
        attribute of that final name is stored anywhere in the function."""
        if self.scope is None or not (isinstance(owner, (ast.FunctionDef, ast.AsyncFunctionDef)) and fld == "body"):
            return stmts
        stmts = list(stmts)
        j = 0
        while j < len(stmts):
            st = stmts[j]
            if isinstance(st, ast.Assign) and isinstance(st.value, ast.Attribute):  # annotated assignments carry type information: kept
                tg = st.targets
                if len(tg) == 1 and isinstance(tg[0], ast.Name):
                    t = tg[0].id
                    chain = st.value
                    root = chain
                    attrs = []
                    while isinstance(root, ast.Attribute):
                        attrs.append(root.attr)
                        root = root.value
                    params = [x.arg for x in owner.args.posonlyargs + owner.args.args + owner.args.kwonlyargs]
                    is_plain_param = isinstance(root, ast.Name) and root.id in params[0 if not params or params[0] not in ("self", "cls") else 1:]
                    if is_plain_param and root.id != t and len(attrs) <= 3:
                        a = root.id
                        n_loads = self.scope.loads.get(t, 0)
                        stored_attrs = {x.attr for x in ast.walk(owner) if isinstance(x, ast.Attribute) and isinstance(x.ctx, (ast.Store, ast.Del))}
                        before = stmts[:j]
                        t_before = any(isinstance(x, ast.Name) and x.id == t for b in before for x in ast.walk(b))
                        nested = any(isinstance(x, (ast.FunctionDef, ast.Lambda)) and any(isinstance(y, ast.Name) and y.id == t for y in ast.walk(x)) for b in stmts[j + 1:] for x in ast.walk(b))
                        a_stores = self.scope.stores.get(a, 0)
                        if self.scope.stores.get(t, 0) == 1 and 1 <= n_loads <= 5 and a_stores <= 1 and not (set(attrs) & stored_attrs) and not t_before and not nested:
                            ren = {t: st.value}
                            stmts = before + [_Rename(ren).visit(b) for b in stmts[j + 1:]]
                            for b in stmts:
                                ast.fix_missing_locations(b)
                            self.scope.recount()
                            continue
            j += 1
        return stmts

    def n2_ifexp(self, stmts):
        out = []
        i = 0
        while i < len(stmts):
            s = stmts[i]
            if isinstance(s, ast.If) and len(s.body) == 1:
                a = s.body[0]
                b = s.orelse[0] if len(s.orelse) == 1 else None
                nxt = stmts[i + 1] if i + 1 < len(stmts) else None
                if b is None and not s.orelse and isinstance(a, ast.Return) and isinstance(nxt, ast.Return) and a.value is not None and nxt.value is not None:
                    b = nxt
                    consume = 2
                else:
                    consume = 1
                if b is not None and _is_simple_expr(s.test):
                    if isinstance(a, ast.Return) and isinstance(b, ast.Return) and a.value is not None and b.value is not None and _is_simple_expr(a.value) and _is_simple_expr(b.value):
                        val = self._ifexp(s.test, a.value, b.value)
                        r = ast.copy_location(ast.Return(value=val), s)
                        ast.fix_missing_locations(r)
                        out.append(r)
                        i += consume
                        continue
                    if consume == 1 and isinstance(a, ast.Assign) and isinstance(b, ast.Assign) and len(a.targets) == len(b.targets) == 1 and _u(a.targets[0]) == _u(b.targets[0]) and isinstance(a.targets[0], (ast.Name, ast.Attribute)) and _is_simple_expr(a.value) and _is_simple_expr(b.value):
                        val = self._ifexp(s.test, a.value, b.value)
                        r = ast.copy_location(ast.Assign(targets=[a.targets[0]], value=val), s)
                        ast.fix_missing_locations(r)
                        out.append(r)
                        i += 1
                        continue
            out.append(s)
            i += 1
        return out

    @staticmethod
    def _ifexp(test, a, b):
        # boolean simplifications: True if c else False -> c ; False if c else True -> not c
        if isinstance(a, ast.Constant) and isinstance(b, ast.Constant) and isinstance(a.value, bool) and isinstance(b.value, bool) and a.value != b.value:
            return test if a.value else _negate(test)
        if isinstance(b, ast.Constant) and b.value is False:
            return ast.BoolOp(op=ast.And(), values=[test, a])
        if isinstance(a, ast.Constant) and a.value is True:
            return ast.BoolOp(op=ast.Or(), values=[test, b])
        if isinstance(a, ast.Constant) and a.value is False:
            return ast.BoolOp(op=ast.And(), values=[_negate(test), b])
        if isinstance(b, ast.Constant) and b.value is True:
            return ast.BoolOp(op=ast.Or(), values=[_negate(test), a])
        return ast.IfExp(test=test, body=a, orelse=b)


# ------------------------------------------------------------------------------------------------ helper inlining
def _always_returns(block) -> bool:
    if not block:
        return False
    last = block[-1]
    if isinstance(last, (ast.Return, ast.Raise)):
        return True
    if isinstance(last, ast.If) and last.orelse:
        return _always_returns(last.body) and _always_returns(last.orelse)
    return False


def _tailify(block):
    """Rewrite `if c: ...return` followed by REST into if/else so that every return is in tail position.
    Returns the new block or None if some return is not convertible."""
    out = []
    for i, s in enumerate(block):
        if isinstance(s, ast.If):
            body = _tailify(s.body)
            orelse = _tailify(s.orelse) if s.orelse else []
            if body is None or orelse is None:
                return None
            rest = block[i + 1:]
            if rest and _always_returns(body) and not s.orelse:
                r2 = _tailify(rest)
                if r2 is None:
                    return None
                out.append(ast.copy_location(ast.If(test=s.test, body=body, orelse=r2), s))
                return out
            if rest and s.orelse and _always_returns(orelse) and not _always_returns(body):
                r2 = _tailify(rest)
                if r2 is None:
                    return None
                out.append(ast.copy_location(ast.If(test=s.test, body=body + r2, orelse=orelse), s))
                return out
            has_ret = any(isinstance(x, ast.Return) for b in (body, orelse) for st in b for x in ast.walk(st))
            if has_ret and rest and not (_always_returns(body) and _always_returns(orelse)):
                return None
            out.append(ast.copy_location(ast.If(test=s.test, body=body, orelse=orelse), s))
            if has_ret and _always_returns(body) and _always_returns(orelse):
                return out if not rest else None
            continue
        if isinstance(s, ast.Return):
            out.append(s)
            return out if i == len(block) - 1 else None
        if any(isinstance(x, ast.Return) for x in ast.walk(s)):
            return None
        out.append(s)
    return out


def _loopify(block):
    """A helper whose returns sit inside one top-level loop (plus the tail after it): move the tail into the loop's `else`
    clause, so that `return X` inside the loop can become `<use X>; break` at the call site.  Returns the new block or None."""
    loops = [i for i, s in enumerate(block) if isinstance(s, (ast.While, ast.For)) and any(isinstance(x, ast.Return) for x in ast.walk(s))]
    if len(loops) != 1:
        return None
    i = loops[0]
    lp = block[i]
    if lp.orelse or any(isinstance(x, ast.Return) for st in block[:i] for x in ast.walk(st)):
        return None

    def own_level(stmts):
        """statements of the loop body outside nested loops / defs"""
        for st in stmts:
            yield st
            if isinstance(st, (ast.If, ast.With)):
                yield from own_level(st.body)
                yield from own_level(getattr(st, "orelse", []) or [])
            elif isinstance(st, ast.Try):
                return
    lvl = list(own_level(lp.body))
    if any(isinstance(st, (ast.Break, ast.Try)) for st in lvl):
        return None
    rets_in_loop = [x for x in ast.walk(lp) if isinstance(x, ast.Return)]
    if not all(any(x is st for st in lvl) for x in rets_in_loop):
        return None  # a return inside a nested loop
    tail = _tailify(block[i + 1:]) if block[i + 1:] else []
    if tail is None:
        return None
    if not _always_returns(tail):
        tail = list(tail) + [ast.Return(value=ast.Constant(value=None))]
    new_loop = copy.copy(lp)
    new_loop.orelse = tail
    new_loop._loopified = True
    return list(block[:i]) + [new_loop]


def _replace_all_returns(block, make_stmt, in_loop=False):
    """Every `return X` of the block (nested defs excluded) becomes make_stmt(X), followed by `break` inside the loop body."""
    out = []
    for s in block:
        if isinstance(s, ast.Return):
            r = make_stmt(s.value if s.value is not None else ast.Constant(value=None))
            if r is not None:
                out.append(ast.copy_location(r, s))
            if in_loop:
                out.append(ast.copy_location(ast.Break(), s))
            continue
        if isinstance(s, (ast.FunctionDef, ast.ClassDef)):
            out.append(s)
            continue
        s2 = copy.copy(s)
        for fld in ("body", "orelse", "finalbody"):
            b = getattr(s2, fld, None)
            if isinstance(b, list) and b and isinstance(b[0], ast.stmt):
                loop_body = isinstance(s2, (ast.While, ast.For)) and fld == "body"
                setattr(s2, fld, _replace_all_returns(b, make_stmt, in_loop=(in_loop and not isinstance(s2, (ast.While, ast.For))) or loop_body) or [ast.copy_location(ast.Pass(), s)])
        out.append(s2)
    return out


def _replace_tail_returns(block, make_stmt):
    out = []
    for s in block:
        if isinstance(s, ast.Return):
            r = make_stmt(s.value if s.value is not None else ast.Constant(value=None))
            if r is not None:
                out.append(ast.copy_location(r, s))
        elif isinstance(s, ast.If):
            n = ast.If(test=s.test, body=_replace_tail_returns(s.body, make_stmt) or [ast.Pass()], orelse=_replace_tail_returns(s.orelse, make_stmt))
            out.append(ast.copy_location(n, s))
        else:
            out.append(s)
    return out


class Inliner:
    """N6: inline private, non-anchor, straight-line helpers of the same module."""

    def __init__(self, tree: ast.Module, baseline_helpers_ok: bool = True, foreign_refs: set | None = None, foreign_defs: set | None = None, inherited: dict | None = None):
        self.inherited = inherited or {}  # (class, helper) -> (FunctionDef from a base class in another module, imports it needs, names)
        self.foreign_refs = foreign_refs or set()
        self.foreign_defs = foreign_defs or set()  # function names defined in other modules: a method of that name may be an override
        self.tree = tree
        self.changed = False
        self.counter = 0
        self.helpers = {}  # key -> (FunctionDef, kind, class name | None)
        self.loopified = set()  # helpers whose body was restructured by _loopify (statement-position inlining only)
        self.props = {}  # (class name, property name) -> (FunctionDef, self parameter, returned expression): private pure properties
        self._collect()

    def _collect(self):
        for n in self.tree.body:
            if isinstance(n, ast.FunctionDef):
                self._consider(n, None)
            elif isinstance(n, ast.ClassDef):
                for b in n.body:
                    if isinstance(b, ast.FunctionDef):
                        self._consider(b, n)
        # private helpers inherited from base classes that live in other modules
        self.foreign_fns = {}
        bound_here = set()
        for st in self.tree.body:
            if isinstance(st, (ast.Import, ast.ImportFrom)):
                bound_here |= {(a.asname or a.name).split(".")[0] for a in st.names}
            elif isinstance(st, (ast.FunctionDef, ast.ClassDef)):
                bound_here.add(st.name)
            elif isinstance(st, (ast.Assign, ast.AnnAssign)):
                bound_here |= {t.id for t in (st.targets if isinstance(st, ast.Assign) else [st.target]) if isinstance(t, ast.Name)}
        for (cname, hname), (fn, imports, names) in self.inherited.items():
            cls = next((c for c in self.tree.body if isinstance(c, ast.ClassDef) and c.name == cname), None)
            if cls is None or (cname, hname) in self.helpers:
                continue
            before = set(self.helpers)
            self._consider(fn, cls)
            if (cname, hname) in self.helpers and (cname, hname) not in before:
                self.foreign_fns[id(self.helpers[(cname, hname)][0])] = [(nm, imp) for nm, imp in zip(names, imports) if nm not in bound_here]

    def _consider(self, fn: ast.FunctionDef, cls):
        name = fn.name
        if not name.startswith("_") or name.startswith("__") or name in ANCHORS:
            return
        decos = [_u(d) for d in fn.decorator_list]
        if decos == ["property"] and cls is not None and len(fn.args.args) == 1:
            pbody = [s for s in fn.body if not (isinstance(s, ast.Expr) and isinstance(s.value, ast.Constant))]
            if len(pbody) == 1 and isinstance(pbody[0], ast.Return) and pbody[0].value is not None and _is_simple_expr(pbody[0].value) and not any(isinstance(c, ast.ClassDef) and c is not cls and any(isinstance(b, ast.FunctionDef) and b.name == name for b in c.body) for c in self.tree.body):
                self.props[(cls.name, name)] = (fn, fn.args.args[0].arg, pbody[0].value)
            return
        if any(d in ("property", "abstractmethod") or d.endswith(".setter") for d in decos):
            return
        if any(d not in ("staticmethod", "classmethod") for d in decos) or any(isinstance(d, ast.Call) for d in fn.decorator_list):
            return  # a decorated function (memoised, registered, wrapped) is not its body
        if fn.args.vararg or fn.args.kwarg or fn.args.kwonlyargs:
            return
        body = [s for s in fn.body if not (isinstance(s, ast.Expr) and isinstance(s.value, ast.Constant))]
        if not body:
            return
        # straight-line: no loops / try / with / nested defs; returns only as the last statement
        for s in body:
            for x in ast.walk(s):
                if isinstance(x, (ast.Try, ast.With, ast.FunctionDef, ast.ClassDef, ast.Lambda, ast.Yield, ast.YieldFrom, ast.Global, ast.Nonlocal, ast.AsyncFor, ast.AsyncWith)):
                    return
        rets = [x for s in body for x in ast.walk(s) if isinstance(x, ast.Return)]
        if len(rets) > 1 or (rets and rets[0] is not body[-1]):
            tb = _tailify(body)
            if tb is None:
                tb = _loopify(body)
                if tb is None:
                    return
                self.loopified.add((cls.name if cls is not None else None, name))
            body = tb
        # recursion
        for x in ast.walk(fn):
            if isinstance(x, ast.Call) and _u(x.func).split(".")[-1] == name:
                return
        kind = "static" if "staticmethod" in decos else "class" if "classmethod" in decos else "method" if cls is not None else "function"
        self.helpers[(cls.name if cls is not None else None, name)] = (fn, kind, body)

    def run(self):
        if not self.helpers and not self.props:
            return
        for n in self.tree.body:
            if isinstance(n, ast.FunctionDef):
                self._inline_in(n, None)
            elif isinstance(n, ast.ClassDef):
                for b in n.body:
                    if isinstance(b, ast.FunctionDef):
                        self._inline_in(b, n)
        # drop helpers that are no longer referenced anywhere
        refs = set()
        for x in ast.walk(self.tree):
            if isinstance(x, ast.Attribute):
                refs.add(x.attr)
            elif isinstance(x, ast.Name):
                refs.add(x.id)
        for (cname, name), (fn, kind, body) in list(self.helpers.items()):
            if name not in refs and name not in self.foreign_refs:
                owner = self.tree if cname is None else next(c for c in self.tree.body if isinstance(c, ast.ClassDef) and c.name == cname)
                if fn in owner.body and len(owner.body) > 1:
                    owner.body.remove(fn)
                    self.changed = True

    def _lookup(self, call: ast.Call, cls, selfn):
        f = call.func
        if isinstance(f, ast.Name):
            h = self.helpers.get((None, f.id))
            return h, 0
        if isinstance(f, ast.Attribute) and isinstance(f.value, ast.Name):
            # a static helper of another class of this module, called through the class name
            if (cls is None or f.value.id not in (selfn, cls.name, "cls")) and (f.value.id, f.attr) in self.helpers and self.helpers[(f.value.id, f.attr)][1] == "static":
                h = self.helpers[(f.value.id, f.attr)]
                if not self._overridden_below(h, f.attr):
                    return h, 0
            if cls is not None and f.value.id in (selfn, cls.name, "cls"):
                h = self.helpers.get((cls.name, f.attr))
                # inherited helper: defined in a base class of the same module and not overridden on the way
                cur, hops = cls, 0
                while h is None and hops < 4:
                    hops += 1
                    if any(isinstance(b, ast.FunctionDef) and b.name == f.attr for b in cur.body):
                        break
                    bases = [b.id for b in cur.bases if isinstance(b, ast.Name)]
                    nxt = [c for c in self.tree.body if isinstance(c, ast.ClassDef) and c.name in bases]
                    if len(bases) != 1 or len(nxt) != 1:
                        break
                    cur = nxt[0]
                    h = self.helpers.get((cur.name, f.attr))
                if h is None:
                    return None, 0
                if self._overridden_below(h, f.attr):
                    return None, 0
                owner_cls = next((k[0] for k, v in self.helpers.items() if v is h), None)
                if h[1] == "method" and f.value.id == selfn and ((owner_cls, f.attr) in self.foreign_defs or (cls.name, f.attr) in self.foreign_defs):
                    return None, 0  # `self.helper()` may dispatch to an override defined in a subclass in another module
                return h, (1 if h[1] in ("method", "class") else 0)
        return None, 0

    def _overridden_below(self, h, name) -> bool:
        """A subclass in this module redefines the helper: `self.helper()` may dispatch there, so do not inline."""
        owner = next((c for c in self.tree.body if isinstance(c, ast.ClassDef) and h[0] in c.body), None)
        if owner is None:
            return False
        subs, grew = {owner.name}, True
        while grew:
            grew = False
            for c in self.tree.body:
                if isinstance(c, ast.ClassDef) and c.name not in subs and any(isinstance(b, ast.Name) and b.id in subs for b in c.bases):
                    subs.add(c.name)
                    grew = True
        return any(isinstance(c, ast.ClassDef) and c.name in subs and c is not owner and any(isinstance(b, ast.FunctionDef) and b.name == name for b in c.body) for c in self.tree.body)

    def _note_foreign(self, fn):
        """An inherited helper from another module was inlined: make the names it uses resolvable in this module."""
        for nm, imp in self.foreign_fns.get(id(fn), []):
            if not any(isinstance(st, (ast.Import, ast.ImportFrom)) and any((a.asname or a.name).split(".")[0] == nm for a in st.names) for st in self.tree.body):
                pos = next((k for k, st in enumerate(self.tree.body) if not (isinstance(st, ast.Expr) and isinstance(st.value, ast.Constant)) and not (isinstance(st, ast.ImportFrom) and st.module == "__future__")), 0)
                ast.fix_missing_locations(imp)
                self.tree.body.insert(pos, imp)

    def _bind(self, fn: ast.FunctionDef, call: ast.Call, skip: int, recv: ast.expr | None):
        """-> (mapping param -> expr, prelude statements) or None"""
        self._note_foreign(fn)
        params = [a.arg for a in fn.args.posonlyargs + fn.args.args]
        mapping = {}
        prelude = []
        if skip and params:
            mapping[params[0]] = recv if recv is not None else ast.Name(id=params[0], ctx=ast.Load())
            params = params[1:]
        args = list(call.args)
        if any(isinstance(a, ast.Starred) for a in args) or any(k.arg is None for k in call.keywords):
            return None
        defaults = fn.args.defaults
        dmap = dict(zip([a.arg for a in (fn.args.posonlyargs + fn.args.args)][-len(defaults):], defaults)) if defaults else {}
        if len(args) > len(params):
            return None
        vals = dict(zip(params, args))
        for k in call.keywords:
            if k.arg not in params or k.arg in vals:
                return None
            vals[k.arg] = k.value
        for p in params:
            if p not in vals:
                if p in dmap:
                    vals[p] = dmap[p]
                else:
                    return None
        stored = set()
        for s in fn.body:
            stored |= _names_stored(s)
        for p, v in vals.items():
            trivial = isinstance(v, (ast.Name, ast.Constant)) or (isinstance(v, ast.Attribute) and isinstance(v.value, ast.Name))
            uses = sum(1 for s in fn.body for x in ast.walk(s) if isinstance(x, ast.Name) and x.id == p and isinstance(x.ctx, ast.Load))
            if (trivial or uses <= 1) and p not in stored:
                mapping[p] = v
            else:
                self.counter += 1
                tmp = f"__{fn.name.strip('_')}_{p}_{self.counter}"
                a = ast.Assign(targets=[ast.Name(id=tmp, ctx=ast.Store())], value=v)
                prelude.append(a)
                mapping[p] = ast.Name(id=tmp, ctx=ast.Load())
        return mapping, prelude

    def _instantiate(self, fn, body, mapping, at):
        """Copy of the helper body with parameters substituted and locals renamed."""
        stored = set()
        for s in body:
            stored |= _names_stored(s)
        self.counter += 1
        ren = {n: ast.Name(id=f"__{fn.name.strip('_')}_{n}_{self.counter}", ctx=ast.Load()) for n in stored if n not in mapping}
        m = dict(mapping)
        m.update(ren)
        out = []
        for s in body:
            s2 = _Rename(m).visit(copy.deepcopy(s))
            for x in ast.walk(s2):
                if hasattr(x, "lineno"):
                    pass
            out.append(s2)
        return out

    def _inline_in(self, fn: ast.FunctionDef, cls):
        if (cls.name if cls is not None else None, fn.name) in self.helpers:
            pass
        selfn = fn.args.args[0].arg if (cls is not None and fn.args.args and not any(_u(d) == "staticmethod" for d in fn.decorator_list)) else None
        self._inline_block_owner(fn, cls, selfn, fn)

    def _inline_block_owner(self, node, cls, selfn, cur_fn):
        for fld in ("body", "orelse", "finalbody"):
            b = getattr(node, fld, None)
            if isinstance(b, list) and b and isinstance(b[0], ast.stmt):
                newb = []
                for s in b:
                    newb.extend(self._inline_stmt(s, cls, selfn, cur_fn))
                setattr(node, fld, newb)
                for s in newb:
                    if not isinstance(s, (ast.FunctionDef, ast.ClassDef)):
                        self._inline_block_owner(s, cls, selfn, cur_fn)
                    elif isinstance(s, ast.FunctionDef):
                        self._inline_block_owner(s, cls, selfn, cur_fn)
        if isinstance(node, ast.Try):
            for h in node.handlers:
                self._inline_block_owner(h, cls, selfn, cur_fn)

    def _inline_stmt(self, s, cls, selfn, cur_fn):
        # statement position: Expr(call) / Assign(x = call) / Return(call)
        call = None
        if isinstance(s, ast.Expr) and isinstance(s.value, ast.Call):
            call = s.value
        elif isinstance(s, (ast.Assign, ast.Return, ast.AnnAssign)) and isinstance(getattr(s, "value", None), ast.Call):
            call = s.value
        if call is not None:
            h, skip = self._lookup(call, cls, selfn)
            if h is not None and h[0] is not cur_fn:
                fn, kind, body = h
                recv = call.func.value if isinstance(call.func, ast.Attribute) else None
                bound = self._bind(fn, call, skip, recv)
                if bound is not None:
                    mapping, prelude = bound
                    inst = self._instantiate(fn, body, mapping, s)
                    n_rets = sum(1 for st in inst for x in ast.walk(st) if isinstance(x, ast.Return))
                    key_ = next((k for k, v in self.helpers.items() if v[0] is fn), None)
                    if key_ in self.loopified:
                        if isinstance(s, ast.Expr):
                            mk = lambda e: (None if isinstance(e, (ast.Constant, ast.Name)) else ast.Expr(value=e))
                        elif isinstance(s, ast.Assign):
                            mk = lambda e: ast.Assign(targets=copy.deepcopy(s.targets), value=e)
                        elif isinstance(s, ast.AnnAssign):
                            mk = lambda e: ast.Assign(targets=[copy.deepcopy(s.target)], value=e)
                        else:
                            mk = lambda e: ast.Return(value=e)
                        res = list(prelude) + _replace_all_returns(inst, mk)
                    elif n_rets > 1 or (n_rets == 1 and not isinstance(inst[-1], ast.Return)):
                        # multi-return helper in tail form: every `return e` becomes the statement the call site performs with e
                        if isinstance(s, ast.Expr):
                            mk = lambda e: (None if isinstance(e, ast.Constant) else ast.Expr(value=e))
                        elif isinstance(s, ast.Assign):
                            mk = lambda e: ast.Assign(targets=copy.deepcopy(s.targets), value=e)
                        elif isinstance(s, ast.AnnAssign):
                            mk = lambda e: ast.Assign(targets=[copy.deepcopy(s.target)], value=e)
                        else:
                            mk = lambda e: ast.Return(value=e)
                        res = list(prelude) + _replace_tail_returns(inst, mk)
                        if not _always_returns(inst) and isinstance(s, (ast.Assign, ast.AnnAssign)):
                            return [s]  # some path falls off the end: keep the call
                    else:
                        last = inst[-1] if inst and isinstance(inst[-1], ast.Return) else None
                        core = inst[:-1] if last is not None else inst
                        res = list(prelude) + core
                        rv = last.value if last is not None and last.value is not None else ast.Constant(value=None)
                        if isinstance(s, ast.Expr):
                            if last is not None and last.value is not None and not isinstance(last.value, (ast.Constant, ast.Name)):
                                res.append(ast.Expr(value=rv))
                        elif isinstance(s, ast.Assign):
                            res.append(ast.Assign(targets=s.targets, value=rv))
                        elif isinstance(s, ast.AnnAssign):
                            res.append(ast.AnnAssign(target=s.target, annotation=s.annotation, value=rv, simple=s.simple))
                        else:
                            res.append(ast.Return(value=rv))
                    for r in res:
                        ast.copy_location(r, s)
                        ast.fix_missing_locations(r)
                    self.changed = True
                    return res or [ast.copy_location(ast.Pass(), s)]
        # expression position: replace calls to single-return helpers inside this statement (not descending into nested blocks)
        hoisted = self._inline_exprs(s, cls, selfn, cur_fn)
        return list(hoisted) + [s]

    def _inline_exprs(self, s, cls, selfn, cur_fn):
        outer = self
        hoisted = []
        simple_stmt = isinstance(s, (ast.Assign, ast.AnnAssign, ast.Return, ast.Expr)) and getattr(s, "value", None) is not None
        s_root = s.value if simple_stmt else s
        if isinstance(s, ast.For):
            simple_stmt, s_root = True, s.iter  # the iterable is evaluated once, before the loop
        elif isinstance(s, ast.If):
            simple_stmt, s_root = True, s.test

        class T(ast.NodeTransformer):
            def generic_visit(self, node):
                # do not descend into nested statement lists (they are handled as their own blocks)
                for field, old in ast.iter_fields(node):
                    if field in ("body", "orelse", "finalbody", "handlers") and isinstance(old, list) and old and isinstance(old[0], (ast.stmt, ast.ExceptHandler)):
                        continue
                    if isinstance(old, list):
                        new = []
                        for v in old:
                            if isinstance(v, ast.AST):
                                v = self.visit(v)
                                if v is None:
                                    continue
                            new.append(v)
                        old[:] = new
                    elif isinstance(old, ast.AST):
                        nv = self.visit(old)
                        setattr(node, field, nv)
                return node

            def visit_Attribute(self, node):
                self.generic_visit(node)
                if cls is not None and isinstance(node.ctx, ast.Load) and isinstance(node.value, ast.Name) and node.value.id == selfn and (cls.name, node.attr) in outer.props:
                    pfn, pself, pexpr = outer.props[(cls.name, node.attr)]
                    if pfn is not cur_fn:
                        outer.changed = True
                        e = _Rename({pself: ast.Name(id=selfn, ctx=ast.Load())}).visit(copy.deepcopy(pexpr))
                        ast.copy_location(e, node)
                        return ast.fix_missing_locations(e)
                return node

            def visit_Call(self, node):
                self.generic_visit(node)
                h, skip = outer._lookup(node, cls, selfn)
                if h is None or h[0] is cur_fn:
                    return node
                if next((k for k, v in outer.helpers.items() if v[0] is h[0]), None) in outer.loopified:
                    return node
                fn, kind, body = h
                if not (len(body) == 1 and isinstance(body[0], ast.Return) and body[0].value is not None):
                    # a straight-line helper with one final return: hoist its body in front of the statement when nothing
                    # with effects is evaluated in the statement before the call
                    multi_ok = len(body) >= 2 and isinstance(body[-1], ast.Return) and body[-1].value is not None and not any(isinstance(x, ast.Return) for st in body[:-1] for x in ast.walk(st))
                    if not (multi_ok and simple_stmt and _evaluated_exactly_once(s_root, node) and all(_nonmutating_call(c) for c in _calls_before_node(s_root, node))):
                        return node
                    recv = node.func.value if isinstance(node.func, ast.Attribute) else None
                    bound = outer._bind(fn, node, skip, recv)
                    if bound is None:
                        return node
                    mapping, prelude = bound
                    inst = outer._instantiate(fn, body, mapping, s)
                    hoisted.extend(prelude + inst[:-1])
                    outer.changed = True
                    e = inst[-1].value
                    ast.copy_location(e, node)
                    ast.fix_missing_locations(e)
                    return e
                recv = node.func.value if isinstance(node.func, ast.Attribute) else None
                bound = outer._bind(fn, node, skip, recv)
                if bound is None:
                    return node
                mapping, prelude = bound
                if prelude:
                    return node  # would need statement context
                outer.changed = True
                e = _Rename(mapping).visit(copy.deepcopy(body[0].value))
                ast.copy_location(e, node)
                ast.fix_missing_locations(e)
                return e

        T().visit(s)
        for h in hoisted:
            ast.copy_location(h, s)
            ast.fix_missing_locations(h)
        return hoisted


def _simplify_bool(e: ast.expr) -> ast.expr:
    if isinstance(e, ast.IfExp):
        return BlockNormalizer._ifexp(e.test, _simplify_bool(e.body), _simplify_bool(e.orelse))
    return e


def _expr_of_block(stmts, fall, depth=0, allow_dup=False):
    """Return expression computed by a block of (simple assignments | if | return) statements, given the expression
    `fall` that the code after the block evaluates to; None if the block is not of that pure form."""
    if depth > 12:
        return None
    if not stmts:
        return fall
    s, rest = stmts[0], stmts[1:]
    if isinstance(s, ast.Expr) and isinstance(s.value, ast.Constant):
        return _expr_of_block(rest, fall, depth + 1, allow_dup)
    if isinstance(s, ast.Return):
        # an impure returned expression is fine: it is evaluated exactly once, last, as before
        return s.value if s.value is not None else ast.Constant(value=None)
    if isinstance(s, ast.Assign) and len(s.targets) == 1 and isinstance(s.targets[0], ast.Name) and _is_simple_expr(s.value):
        r = _expr_of_block(rest, fall, depth + 1, allow_dup)
        if r is None:
            return None
        # constants / plain names may be substituted anywhere; other pure values only into pure expressions
        # (moving them past a call with effects could change what they read)
        if not isinstance(s.value, (ast.Constant, ast.Name)) and not _is_simple_expr(r):
            return None
        uses = sum(1 for x in ast.walk(r) if isinstance(x, ast.Name) and x.id == s.targets[0].id)
        if uses > 1 and not allow_dup and not isinstance(s.value, (ast.Constant, ast.Name, ast.Attribute)):
            return None  # do not duplicate computations
        return _subst(r, {s.targets[0].id: s.value})
    if isinstance(s, ast.If):
        # the test is evaluated first and exactly one arm afterwards, as in the statement form: no purity needed
        r = _expr_of_block(rest, fall, depth + 1, allow_dup)
        if r is None:
            return None
        a = _expr_of_block(s.body, r, depth + 1, allow_dup)
        b = _expr_of_block(s.orelse, r, depth + 1, allow_dup)
        if a is None or b is None:
            return None
        return ast.IfExp(test=s.test, body=a, orelse=b)
    return None


def fold_pure_helpers(tree: ast.Module) -> bool:
    """Private non-anchor helpers made only of simple assignments, ifs and returns become a single `return <expr>`."""
    changed = False
    fns = []
    for n in tree.body:
        if isinstance(n, ast.FunctionDef):
            fns.append(n)
        elif isinstance(n, ast.ClassDef):
            fns.extend(b for b in n.body if isinstance(b, ast.FunctionDef))
    for fn in fns:
        if not fn.name.startswith("_") or fn.name.startswith("__") or fn.name in ANCHORS:
            continue
        body = [s for s in fn.body if not (isinstance(s, ast.Expr) and isinstance(s.value, ast.Constant))]
        if len(body) <= 1:
            continue
        e = _expr_of_block(body, ast.Constant(value=None))
        if e is None:
            continue
        e = _simplify_bool(e)
        r = ast.Return(value=e)
        ast.copy_location(r, body[0])
        ast.fix_missing_locations(r)
        fn.body = [r]
        changed = True
    return changed


def inline_nested_predicates(tree: ast.Module) -> bool:
    """N15: a nested single-expression function (`def g(x): return e` or `g = lambda x: e`) that is only ever called by name
    inside its enclosing function is replaced at its call sites by e[x := arg].  Sound when every captured name is bound at
    most once in the enclosing function (so the value seen at the call equals the value at the definition's use) and every
    argument is either an atom or its parameter is used at most once."""
    changed = False
    for f in [n for n in ast.walk(tree) if isinstance(n, (ast.FunctionDef, ast.AsyncFunctionDef))]:
        for st in list(f.body):
            g_name = params = expr = None
            if isinstance(st, ast.FunctionDef) and not st.decorator_list:
                body = [b for b in st.body if not (isinstance(b, ast.Expr) and isinstance(b.value, ast.Constant))]
                if len(body) == 1 and isinstance(body[0], ast.Return) and body[0].value is not None:
                    g_name, a, expr = st.name, st.args, body[0].value
            elif isinstance(st, ast.Assign) and len(st.targets) == 1 and isinstance(st.targets[0], ast.Name) and isinstance(st.value, ast.Lambda):
                g_name, a, expr = st.targets[0].id, st.value.args, st.value.body
            if g_name is None or a.vararg or a.kwarg or a.kwonlyargs or a.defaults or a.posonlyargs:
                continue
            params = [x.arg for x in a.args]
            if any(isinstance(x, (ast.Lambda, ast.Yield, ast.YieldFrom, ast.Await, ast.NamedExpr)) for x in ast.walk(expr)):
                continue
            if g_name in _names_loaded(expr):
                continue
            # every other occurrence of g_name in f must be the callee of a plain positional call
            calls, other = [], 0
            callee_ids = set()
            for n in ast.walk(f):
                if n is st:
                    continue
                if isinstance(n, ast.Call) and isinstance(n.func, ast.Name) and n.func.id == g_name and not n.keywords and len(n.args) == len(params) and not any(isinstance(x, ast.Starred) for x in n.args):
                    calls.append(n)
                    callee_ids.add(id(n.func))
            for n in ast.walk(f):
                if isinstance(n, ast.Name) and n.id == g_name and id(n) not in callee_ids and not (n is getattr(st, "targets", [None])[0]):
                    other += 1
                if isinstance(n, (ast.FunctionDef, ast.AsyncFunctionDef)) and n is not st and n is not f and n.name == g_name:
                    other += 1
            if other or not calls:
                continue
            inner_bound = {x.id for x in ast.walk(expr) if isinstance(x, ast.Name) and isinstance(x.ctx, ast.Store)}
            free = _names_loaded(expr) - set(params) - inner_bound
            stores = {}
            for n in ast.walk(f):
                if isinstance(n, ast.Name) and isinstance(n.ctx, (ast.Store, ast.Del)):
                    stores[n.id] = stores.get(n.id, 0) + 1
                elif isinstance(n, ast.arg) and n is not None:
                    pass
            in_loop = set()
            for n in ast.walk(f):
                if isinstance(n, (ast.For, ast.While, ast.AsyncFor)):
                    in_loop |= _names_stored(n)
            if any(stores.get(v, 0) > 1 or v in in_loop for v in free):
                continue
            uses = {p_: sum(1 for x in ast.walk(expr) if isinstance(x, ast.Name) and x.id == p_) for p_ in params}
            ok = True
            for c in calls:
                for p_, arg in zip(params, c.args):
                    if not (_immutable_atom(arg) or isinstance(arg, ast.Name) or uses[p_] <= 1):
                        ok = False
                # arguments must not collide with names bound inside the expression (comprehension targets)
                if any(_names_loaded(arg) & inner_bound for arg in c.args):
                    ok = False
            if not ok:
                continue
            repl = {id(c): c for c in calls}

            class _R(ast.NodeTransformer):
                def visit_Call(self, node):
                    self.generic_visit(node)
                    if id(node) in repl:
                        new = _subst(copy.deepcopy(expr), dict(zip(params, node.args)))
                        return ast.copy_location(new, node)
                    return node
            for i, b in enumerate(f.body):
                if b is st:
                    continue
                f.body[i] = _R().visit(b)
            f.body = [b for b in f.body if b is not st] or [ast.Pass()]
            ast.fix_missing_locations(f)
            changed = True
    return changed


def strip_truth_casts(tree: ast.Module) -> bool:
    """N16: `flag = bool(E)` where the local `flag` is only ever read in truth contexts (tests of if / while / conditional
    expressions / assert, operands of not / and / or inside such tests) is the same as `flag = E`."""
    changed = False
    for f in [n for n in ast.walk(tree) if isinstance(n, (ast.FunctionDef, ast.AsyncFunctionDef))]:
        truth_ids = set()

        def mark(e):
            if isinstance(e, ast.Name):
                truth_ids.add(id(e))
            elif isinstance(e, ast.UnaryOp) and isinstance(e.op, ast.Not):
                mark(e.operand)
            elif isinstance(e, ast.BoolOp):
                for v in e.values:
                    mark(v)
        for n in ast.walk(f):
            if isinstance(n, (ast.If, ast.While, ast.IfExp, ast.Assert)):
                mark(n.test)
            elif isinstance(n, ast.comprehension):
                for c in n.ifs:
                    mark(c)
        casts = {}
        bad = set()
        for n in ast.walk(f):
            if isinstance(n, ast.Assign) and len(n.targets) == 1 and isinstance(n.targets[0], ast.Name):
                v = n.value
                nm = n.targets[0].id
                if isinstance(v, ast.Call) and isinstance(v.func, ast.Name) and v.func.id == "bool" and len(v.args) == 1 and not v.keywords:
                    casts.setdefault(nm, []).append(n)
                elif isinstance(v, ast.Constant) and isinstance(v.value, bool):
                    pass
                elif isinstance(v, ast.BoolOp) and all(isinstance(x, (ast.Name, ast.Call, ast.UnaryOp, ast.Compare)) for x in v.values):
                    pass
                else:
                    bad.add(nm)
            elif isinstance(n, (ast.AugAssign, ast.AnnAssign, ast.For, ast.NamedExpr, ast.With, ast.arg, ast.Global, ast.Nonlocal)):
                for x in ast.walk(n.target if hasattr(n, "target") else n):
                    if isinstance(x, ast.Name) and isinstance(x.ctx, ast.Store):
                        bad.add(x.id)
                if isinstance(n, ast.arg):
                    bad.add(n.arg)
                if isinstance(n, (ast.Global, ast.Nonlocal)):
                    bad |= set(n.names)
            elif isinstance(n, ast.Tuple) and isinstance(n.ctx, ast.Store):
                bad |= {x.id for x in ast.walk(n) if isinstance(x, ast.Name)}
        for n in ast.walk(f):
            if isinstance(n, ast.Name) and isinstance(n.ctx, ast.Load) and n.id in casts and id(n) not in truth_ids:
                bad.add(n.id)
            if isinstance(n, (ast.FunctionDef, ast.Lambda)) and n is not f:
                bad |= {x.id for x in ast.walk(n) if isinstance(x, ast.Name)}
        for nm, sts in casts.items():
            if nm in bad:
                continue
            for st in sts:
                st.value = st.value.args[0]
                changed = True
    return changed


def separate_returned_argument(tree: ast.Module, returns_arg: dict) -> bool:
    """N17: f returns its k-th argument unchanged on every path (pre-scan of the whole program).  `y = f(.., a, ..)` with a
    plain name `a` becomes `f(.., a, ..); y = a`; likewise `return f(a)`, and a call evaluated exactly once inside a simple
    statement with nothing effectful evaluated before it is hoisted in front of the statement and replaced by `a`."""
    if not returns_arg:
        return False
    changed = False

    def hit(c):
        if not isinstance(c, ast.Call) or c.keywords or any(isinstance(a, ast.Starred) for a in c.args):
            return None
        nm = f"{c.func.value.id}.{c.func.attr}" if isinstance(c.func, ast.Attribute) and isinstance(c.func.value, ast.Name) else c.func.id if isinstance(c.func, ast.Name) else None
        k = returns_arg.get(nm)
        if k is None or k >= len(c.args) or not isinstance(c.args[k], ast.Name):
            return None
        return c.args[k]

    def do_block(stmts):
        nonlocal changed
        out = []
        for s in stmts:
            for fld in ("body", "orelse", "finalbody"):
                b = getattr(s, fld, None)
                if isinstance(b, list) and b and isinstance(b[0], ast.stmt):
                    setattr(s, fld, do_block(b))
            if isinstance(s, ast.Try):
                for h in s.handlers:
                    h.body = do_block(h.body)
            if isinstance(s, (ast.Assign, ast.AnnAssign, ast.Return, ast.Expr)) and getattr(s, "value", None) is not None:
                root = s.value
                if isinstance(s, ast.Expr) and hit(root) is not None:
                    out.append(s)
                    continue
                cands = [c for c in ast.walk(root) if hit(c) is not None]
                cands = [c for c in cands if _evaluated_exactly_once(root, c) and all(_nonmutating_call(x) for x in _calls_before_node(root, c))]
                if cands:
                    c = cands[0]
                    a = hit(c)
                    pre = ast.Expr(value=copy.deepcopy(c))
                    ast.copy_location(pre, s)

                    class R(ast.NodeTransformer):
                        def visit_Call(self, node):
                            if node is c:
                                return ast.copy_location(ast.Name(id=a.id, ctx=ast.Load()), node)
                            return self.generic_visit(node)
                    s.value = R().visit(s.value)
                    ast.fix_missing_locations(pre)
                    ast.fix_missing_locations(s)
                    out.extend([pre, s])
                    changed = True
                    continue
            out.append(s)
        return out

    for f in [n for n in ast.walk(tree) if isinstance(n, (ast.FunctionDef, ast.AsyncFunctionDef))]:
        f.body = do_block(f.body)
    return changed


def expand_kwargs_dicts(tree: ast.Module) -> bool:
    """N22: `kw = {'a': E1, 'b': E2}` ... `f(x, **kw)` with kw used nowhere else  ->  `__kw_a = E1; __kw_b = E2` ...
    `f(x, a=__kw_a, b=__kw_b)`: the values are still evaluated where the dict literal was, and reach the call under the
    same keyword names in the same order."""
    changed = False
    for f in [n for n in ast.walk(tree) if isinstance(n, (ast.FunctionDef, ast.AsyncFunctionDef))]:
        sc = _ScopeCounts(f)
        uses = {}
        for c in ast.walk(f):
            if isinstance(c, ast.Call):
                for k in c.keywords:
                    if k.arg is None and isinstance(k.value, ast.Name):
                        uses.setdefault(k.value.id, []).append((c, k))
        for nm, us in uses.items():
            if len(us) != 1 or sc.stores.get(nm, 0) != 1 or sc.loads.get(nm, 0) != 1:
                continue
            holder = None
            for blk_owner in ast.walk(f):
                for fld in ("body", "orelse", "finalbody"):
                    b = getattr(blk_owner, fld, None)
                    if isinstance(b, list):
                        for i, st in enumerate(b):
                            if isinstance(st, (ast.Assign, ast.AnnAssign)) and isinstance(st.targets[0] if isinstance(st, ast.Assign) else st.target, ast.Name) and (st.targets[0] if isinstance(st, ast.Assign) else st.target).id == nm and isinstance(st.value, ast.Dict):
                                holder = (b, i, st)
            if holder is None:
                continue
            b, i, st = holder
            d = st.value
            if not d.keys or not all(isinstance(k, ast.Constant) and isinstance(k.value, str) and k.value.isidentifier() for k in d.keys):
                continue
            call, kwnode = us[0]
            if any(k.arg in {kk.value for kk in d.keys} for k in call.keywords if k.arg):
                continue
            assigns, kws = [], []
            for kk, vv in zip(d.keys, d.values):
                tmp = f"__{nm.strip('_')}_{kk.value}"
                a = ast.Assign(targets=[ast.Name(id=tmp, ctx=ast.Store())], value=vv)
                ast.copy_location(a, st)
                assigns.append(a)
                kws.append(ast.keyword(arg=kk.value, value=ast.Name(id=tmp, ctx=ast.Load())))
            b[i:i + 1] = assigns
            pos = call.keywords.index(kwnode)
            call.keywords[pos:pos + 1] = kws
            ast.fix_missing_locations(f)
            changed = True
    return changed


def unfold_reduce(tree: ast.Module) -> bool:
    """N23: `x = reduce(lambda acc, item: E, ITER, INIT)` (also as a return value)  ->  `acc = INIT; for item in ITER: acc = E;
    x = acc`, for simple ITER / INIT expressions (evaluated once, no effects to reorder)."""
    changed = False
    counter = [0]

    def do_block(stmts):
        nonlocal changed
        out = []
        for s in stmts:
            for fld in ("body", "orelse", "finalbody"):
                b = getattr(s, fld, None)
                if isinstance(b, list) and b and isinstance(b[0], ast.stmt):
                    setattr(s, fld, do_block(b))
            if isinstance(s, ast.Try):
                for h in s.handlers:
                    h.body = do_block(h.body)
            v = getattr(s, "value", None) if isinstance(s, (ast.Assign, ast.AnnAssign, ast.Return)) else None
            if (isinstance(v, ast.Call) and _u(v.func) in ("reduce", "functools.reduce") and len(v.args) == 3 and not v.keywords and isinstance(v.args[0], ast.Lambda)
                    and len(v.args[0].args.args) == 2 and not v.args[0].args.defaults and not v.args[0].args.vararg and not v.args[0].args.kwarg
                    and _is_simple_expr(v.args[1]) and _is_simple_expr(v.args[2])):
                lam = v.args[0]
                acc_p, item_p = lam.args.args[0].arg, lam.args.args[1].arg
                counter[0] += 1
                acc = f"__reduce_{acc_p}_{counter[0]}"
                item = f"__reduce_{item_p}_{counter[0]}"
                body = _subst(lam.body, {acc_p: ast.Name(id=acc, ctx=ast.Load()), item_p: ast.Name(id=item, ctx=ast.Load())})
                init = ast.Assign(targets=[ast.Name(id=acc, ctx=ast.Store())], value=v.args[2])
                loop = ast.For(target=ast.Name(id=item, ctx=ast.Store()), iter=v.args[1], body=[ast.Assign(targets=[ast.Name(id=acc, ctx=ast.Store())], value=body)], orelse=[])
                s.value = ast.Name(id=acc, ctx=ast.Load())
                for x in (init, loop):
                    ast.copy_location(x, s)
                    ast.fix_missing_locations(x)
                ast.fix_missing_locations(s)
                out.extend([init, loop, s])
                changed = True
                continue
            out.append(s)
        return out

    for f in [n for n in ast.walk(tree) if isinstance(n, (ast.FunctionDef, ast.AsyncFunctionDef))]:
        f.body = do_block(f.body)
    return changed


def unnest_self_calls(tree: ast.Module) -> bool:
    """N24: `x = self.f(self.g(a), b)`  ->  `__t = self.g(a); x = self.f(__t, b)` when the inner call is the first call the
    statement evaluates (and is evaluated exactly once): a pipeline written as nested calls becomes a sequence of stages."""
    changed = False
    counter = [0]

    def do_block(stmts, selfn):
        nonlocal changed
        out = []
        for s in stmts:
            for fld in ("body", "orelse", "finalbody"):
                b = getattr(s, fld, None)
                if isinstance(b, list) and b and isinstance(b[0], ast.stmt):
                    setattr(s, fld, do_block(b, selfn))
            if isinstance(s, ast.Try):
                for h in s.handlers:
                    h.body = do_block(h.body, selfn)
            v = getattr(s, "value", None) if isinstance(s, (ast.Assign, ast.AnnAssign, ast.Return, ast.Expr)) else None
            if selfn and isinstance(v, ast.Call) and isinstance(v.func, ast.Attribute) and isinstance(v.func.value, ast.Name) and v.func.value.id == selfn:
                inner = next((a for a in v.args if isinstance(a, ast.Call) and isinstance(a.func, ast.Attribute) and isinstance(a.func.value, ast.Name) and a.func.value.id == selfn), None)
                if inner is not None and _evaluated_exactly_once(v, inner) and not _calls_before_node(v, inner):
                    counter[0] += 1
                    tmp = f"__stage_{inner.func.attr.strip('_')}_{counter[0]}"
                    pre = ast.Assign(targets=[ast.Name(id=tmp, ctx=ast.Store())], value=inner)
                    ast.copy_location(pre, s)
                    v.args[v.args.index(inner)] = ast.copy_location(ast.Name(id=tmp, ctx=ast.Load()), inner)
                    ast.fix_missing_locations(pre)
                    out.extend(do_block([pre], selfn))
                    out.append(s)
                    changed = True
                    continue
            out.append(s)
        return out

    for c in [n for n in ast.walk(tree) if isinstance(n, ast.ClassDef)]:
        for f in c.body:
            if isinstance(f, ast.FunctionDef) and f.args.args and not any(_u(d) in ("staticmethod", "classmethod") for d in f.decorator_list):
                f.body = do_block(f.body, f.args.args[0].arg)
    return changed


def fold_generator_helpers(tree: ast.Module) -> bool:
    """N27: a private generator function that is nothing but nested `for` / `if` around one `yield E` becomes
    `return (E for .. in .. if ..)`: the same lazy sequence, in a form the other passes can inline and flatten."""
    changed = False
    fns = []
    for n in tree.body:
        if isinstance(n, ast.FunctionDef):
            fns.append(n)
        elif isinstance(n, ast.ClassDef):
            fns.extend(b for b in n.body if isinstance(b, ast.FunctionDef))
    for fn in fns:
        if not fn.name.startswith("_") or fn.name.startswith("__") or fn.name in ANCHORS or fn.decorator_list and any(_u(d) not in ("staticmethod", "classmethod") for d in fn.decorator_list):
            continue
        body = [s for s in fn.body if not (isinstance(s, ast.Expr) and isinstance(s.value, ast.Constant))]
        if len(body) != 1 or not isinstance(body[0], ast.For):
            continue
        gens = []
        cur = body
        ok = True
        elt = None
        while True:
            if len(cur) != 1:
                ok = False
                break
            st = cur[0]
            if isinstance(st, ast.For) and not st.orelse:
                gens.append(ast.comprehension(target=st.target, iter=st.iter, ifs=[], is_async=0))
                cur = st.body
            elif isinstance(st, ast.If) and not st.orelse and gens:
                gens[-1].ifs.append(st.test)
                cur = st.body
            elif isinstance(st, ast.Expr) and isinstance(st.value, ast.Yield) and st.value.value is not None and gens:
                elt = st.value.value
                break
            else:
                ok = False
                break
        if not ok or elt is None or any(isinstance(x, (ast.Yield, ast.YieldFrom)) for x in ast.walk(elt)):
            continue
        r = ast.Return(value=ast.GeneratorExp(elt=elt, generators=gens))
        ast.copy_location(r, body[0])
        ast.fix_missing_locations(r)
        fn.body = [r]
        changed = True
    return changed


def ungroup_by_key(tree: ast.Module) -> bool:
    """N25: G = {}; for x in ITER: G.setdefault(K(x), []).append(x)  ...  G.get(k, [])
        ->  ... [x for x in ITER if K(x) == k]
    when G is used for nothing else, ITER is a simple expression over names the function never rebinds, and K only reads x:
    each group is the sub-list of ITER (in ITER's order) whose key equals k."""
    changed = False
    for f in [n for n in ast.walk(tree) if isinstance(n, (ast.FunctionDef, ast.AsyncFunctionDef))]:
        sc = _ScopeCounts(f)
        for i, st in enumerate(list(f.body)):
            if not (isinstance(st, (ast.Assign, ast.AnnAssign)) and isinstance(st.targets[0] if isinstance(st, ast.Assign) else st.target, ast.Name) and isinstance(getattr(st, "value", None), ast.Dict) and not st.value.keys):
                continue
            G = (st.targets[0] if isinstance(st, ast.Assign) else st.target).id
            if sc.stores.get(G, 0) != 1 or i + 1 >= len(f.body):
                continue
            lp = f.body[i + 1]
            if not (isinstance(lp, ast.For) and not lp.orelse and isinstance(lp.target, ast.Name) and len(lp.body) == 1 and isinstance(lp.body[0], ast.Expr) and isinstance(lp.body[0].value, ast.Call)):
                continue
            c = lp.body[0].value
            x = lp.target.id
            ok = (isinstance(c.func, ast.Attribute) and c.func.attr == "append" and len(c.args) == 1 and isinstance(c.args[0], ast.Name) and c.args[0].id == x
                  and isinstance(c.func.value, ast.Call) and isinstance(c.func.value.func, ast.Attribute) and c.func.value.func.attr == "setdefault" and isinstance(c.func.value.func.value, ast.Name) and c.func.value.func.value.id == G
                  and len(c.func.value.args) == 2 and isinstance(c.func.value.args[1], ast.List) and not c.func.value.args[1].elts)
            if not ok:
                continue
            K = c.func.value.args[0]
            it = lp.iter
            if not (_is_simple_expr(it) or (isinstance(it, ast.Call) and isinstance(it.func, ast.Attribute) and it.func.attr in ("keys", "values") and not it.args and _is_simple_expr(it.func.value))):
                continue
            if not _is_simple_expr(K) or (_names_loaded(K) - {x}) & {n_ for n_ in _names_loaded(K) if sc.stores.get(n_, 0) > 0 and n_ != x}:
                continue
            if any(sc.stores.get(n_, 0) > 0 and n_ not in sc.params for n_ in _names_loaded(it)) or any(sc.stores.get(n_, 0) > 1 for n_ in _names_loaded(it)):
                continue
            # every other use of G must be G.get(k, [])
            uses = []
            bad = False
            inside_loop = {id(y) for y in ast.walk(lp)}
            for y in ast.walk(f):
                if isinstance(y, ast.Call) and isinstance(y.func, ast.Attribute) and y.func.attr == "get" and isinstance(y.func.value, ast.Name) and y.func.value.id == G and len(y.args) == 2 and isinstance(y.args[1], ast.List) and not y.args[1].elts and id(y) not in inside_loop:
                    uses.append(y)
            n_loads = sum(1 for y in ast.walk(f) if isinstance(y, ast.Name) and y.id == G and isinstance(y.ctx, ast.Load))
            if n_loads != len(uses) + 1 or not uses:
                continue
            use_ids = {id(u) for u in uses}

            class R(ast.NodeTransformer):
                def visit_Call(self, node):
                    self.generic_visit(node)
                    if id(node) in use_ids:
                        comp = ast.ListComp(elt=ast.Name(id=x, ctx=ast.Load()), generators=[ast.comprehension(target=ast.Name(id=x, ctx=ast.Store()), iter=copy.deepcopy(it), ifs=[ast.Compare(left=copy.deepcopy(K), ops=[ast.Eq()], comparators=[node.args[0]])], is_async=0)])
                        return ast.fix_missing_locations(ast.copy_location(comp, node))
                    return node
            for k_, b_ in enumerate(f.body):
                if k_ > i + 1:
                    f.body[k_] = R().visit(b_)
            del f.body[i:i + 2]
            ast.fix_missing_locations(f)
            changed = True
            break
    return changed


def inline_lookup_aliases(tree: ast.Module, property_names: set | None = None) -> bool:
    """A local bound ONCE, at the top level of a function, to an attribute chain of `self` / a parameter / another such local
    (`problem = self._problem`, `run = self._de.run`, `append = generations.append`, `gsc = tree._gsc`) - the classic
    hoisting of a lookup out of a loop - is replaced by the chain wherever it is read. Conditions: every attribute of the chain
    is a plain field or (for the last one, when the local is only ever CALLED) a method - never a property, whose value is
    computed on each access; the function stores to none of the chain's attributes; the root is not rebound after the binding."""
    import copy

    property_names = property_names or set()
    changed = False
    for fn in [n for n in ast.walk(tree) if isinstance(n, (ast.FunctionDef, ast.AsyncFunctionDef))]:
        own = list(ast.walk(fn))
        nested = {id(x) for g in own if isinstance(g, (ast.FunctionDef, ast.AsyncFunctionDef, ast.Lambda)) and g is not fn for x in ast.walk(g)}
        stores = {}
        for x in own:
            if isinstance(x, ast.Name) and isinstance(x.ctx, (ast.Store, ast.Del)):
                stores[x.id] = stores.get(x.id, 0) + 1
        attr_stores = {x.attr for x in own if isinstance(x, ast.Attribute) and isinstance(x.ctx, (ast.Store, ast.Del))}
        params = {a.arg for a in fn.args.posonlyargs + fn.args.args + fn.args.kwonlyargs}
        for st in list(fn.body):
            if not (isinstance(st, ast.Assign) and len(st.targets) == 1 and isinstance(st.targets[0], ast.Name) and isinstance(st.value, ast.Attribute)):
                continue
            nm = st.targets[0].id
            chain = st.value
            attrs = []
            root = chain
            while isinstance(root, ast.Attribute):
                attrs.append(root.attr)
                root = root.value
            if not isinstance(root, ast.Name) or nm in params or stores.get(nm, 0) != 1:
                continue
            if root.id not in params and stores.get(root.id, 0) != 1:
                continue  # the root must itself be stable: a parameter or a local bound once
            if root.id in params and stores.get(root.id, 0) > 0:
                continue
            if any(a in attr_stores for a in attrs) or any(a in property_names for a in attrs):
                continue
            if attrs[0] in ("options",):
                continue  # handled by inline_options_alias
            uses = [x for x in own if isinstance(x, ast.Name) and x.id == nm and isinstance(x.ctx, ast.Load)]
            if not uses or any(id(x) in nested for x in uses):
                continue
            # uses must come after the binding statement (line order inside one function body is enough: top-level binding)
            if any(getattr(x, "lineno", 0) <= st.lineno for x in uses):
                continue
            # a mutable container reached through the alias and ALSO through the chain could be confused by rules that key on
            # names only when the alias is passed around whole; restrict to reads that are attribute accesses, calls of the
            # local, subscripts, or plain argument / operand uses
            fn.body.remove(st)

            class _R(ast.NodeTransformer):
                def visit_Name(self, node):
                    if node.id == nm and isinstance(node.ctx, ast.Load):
                        return ast.copy_location(copy.deepcopy(chain), node)
                    return node

            for k, b in enumerate(fn.body):
                fn.body[k] = _R().visit(b)
            if not fn.body:
                fn.body.append(ast.Pass())
            changed = True
            own = list(ast.walk(fn))
    if changed:
        ast.fix_missing_locations(tree)
    return changed


def hoist_leading_walrus(tree: ast.Module) -> bool:
    """`if (x := E) is None:` -> `x = E` followed by `if x is None:` when the assignment expression is the first thing the test
    evaluates (the left operand of the comparison, the operand of `not`, the first operand of and / or, or the test itself).
    Only `if` statements: a `while` test is evaluated again on every iteration."""
    import copy

    changed = False

    def leading(e):
        """the NamedExpr evaluated first in e, with a function that rebuilds e around a replacement"""
        if isinstance(e, ast.NamedExpr) and isinstance(e.target, ast.Name):
            return e
        if isinstance(e, ast.Compare):
            return leading(e.left)
        if isinstance(e, ast.UnaryOp) and isinstance(e.op, ast.Not):
            return leading(e.operand)
        if isinstance(e, ast.BoolOp):
            return leading(e.values[0])
        if isinstance(e, ast.Call) and isinstance(e.func, ast.Name) and e.args and not e.keywords:
            return leading(e.args[0]) if len(e.args) == 1 else None
        return None

    def rewrite(stmts):
        nonlocal changed
        out = []
        for st in stmts:
            for fld in ("body", "orelse", "finalbody"):
                sub = getattr(st, fld, None)
                if isinstance(sub, list) and sub and isinstance(sub[0], ast.stmt):
                    setattr(st, fld, rewrite(sub))
            if isinstance(st, ast.Try):
                for h in st.handlers:
                    h.body = rewrite(h.body)
            if isinstance(st, ast.Match):
                for c in st.cases:
                    c.body = rewrite(c.body)
            if isinstance(st, ast.Expr) and isinstance(st.value, ast.Call) and len(st.value.args) == 1 and not st.value.keywords and isinstance(st.value.args[0], ast.NamedExpr) and isinstance(st.value.args[0].target, ast.Name):
                # `gens.append((parents := step(parents)))` -> `parents = step(parents)`; `gens.append(parents)` (the callee is a
                # plain attribute lookup on names, evaluated without side effects before the argument)
                fnx = st.value.func
                base_ = fnx
                while isinstance(base_, ast.Attribute):
                    base_ = base_.value
                w = st.value.args[0]
                if isinstance(base_, ast.Name) and base_.id != w.target.id:
                    out.append(ast.copy_location(ast.Assign(targets=[ast.Name(id=w.target.id, ctx=ast.Store())], value=w.value), st))
                    st.value.args[0] = ast.copy_location(ast.Name(id=w.target.id, ctx=ast.Load()), w)
                    changed = True
            if isinstance(st, ast.If):
                w = leading(st.test)
                if w is not None:
                    assign = ast.copy_location(ast.Assign(targets=[ast.Name(id=w.target.id, ctx=ast.Store())], value=w.value), st)
                    name = ast.copy_location(ast.Name(id=w.target.id, ctx=ast.Load()), w)

                    class _R(ast.NodeTransformer):
                        def visit_NamedExpr(self, node):
                            return name if node is w else self.generic_visit(node)

                    st.test = _R().visit(st.test)
                    out.append(assign)
                    changed = True
            out.append(st)
        return out

    for node in ast.walk(tree):
        if isinstance(node, (ast.FunctionDef, ast.AsyncFunctionDef)):
            node.body = rewrite(node.body)
    if changed:
        ast.fix_missing_locations(tree)
    return changed


def inline_options_alias(tree: ast.Module) -> bool:
    """`options = self.config.options` (a local name for the configuration's option dictionary, bound once and only read):
    the reads are reads of `self.config.options`. The alias and the chain denote the same object, nothing in the function
    rebinds `.config` / `.options`, so substituting it changes nothing - and the option tests keep the spelling the rules read."""
    import copy

    changed = False
    for fn in [n for n in ast.walk(tree) if isinstance(n, (ast.FunctionDef, ast.AsyncFunctionDef))]:
        own = [x for x in ast.walk(fn)]
        nested = {id(x) for g in own if isinstance(g, (ast.FunctionDef, ast.Lambda)) and g is not fn for x in ast.walk(g)}
        stores = {}
        for x in own:
            if isinstance(x, ast.Name) and isinstance(x.ctx, (ast.Store, ast.Del)):
                stores[x.id] = stores.get(x.id, 0) + 1
        if any(isinstance(x, ast.Attribute) and isinstance(x.ctx, (ast.Store, ast.Del)) and x.attr in ("config", "options", "_config") for x in own):
            continue
        for st in list(fn.body):
            if not (isinstance(st, ast.Assign) and len(st.targets) == 1 and isinstance(st.targets[0], ast.Name) and isinstance(st.value, ast.Attribute) and st.value.attr == "options"):
                continue
            nm = st.targets[0].id
            chain = st.value
            root = chain
            while isinstance(root, ast.Attribute):
                root = root.value
            if not isinstance(root, ast.Name) or stores.get(nm, 0) != 1 or stores.get(root.id, 0) > 0 or nm in {a.arg for a in fn.args.args + fn.args.kwonlyargs}:
                continue
            if any(isinstance(x, ast.Name) and x.id == nm and id(x) in nested for x in own):
                continue

            class _R(ast.NodeTransformer):
                def visit_Name(self, node):
                    if node.id == nm and isinstance(node.ctx, ast.Load):
                        return ast.copy_location(copy.deepcopy(chain), node)
                    return node

            fn.body.remove(st)
            for k, b in enumerate(fn.body):
                fn.body[k] = _R().visit(b)
            if not fn.body:
                fn.body.append(ast.Pass())
            changed = True
    if changed:
        ast.fix_missing_locations(tree)
    return changed


def lower_literal_match(tree: ast.Module) -> bool:
    """`match SUBJECT:` whose subject is a plain name / attribute chain and whose cases are literal values (`case "clip":`,
    `case 1 | 2:`, `case None:`) with an optional final wildcard and no guards is the if / elif / else chain on
    `SUBJECT == literal` (`is` for None / True / False) - the form every rule already reads."""
    changed = False

    def simple_subject(e):
        while isinstance(e, ast.Attribute):
            e = e.value
        return isinstance(e, ast.Name)

    def test_of(subject, pat):
        import copy

        if isinstance(pat, ast.MatchValue) and isinstance(pat.value, (ast.Constant, ast.Attribute, ast.UnaryOp)):
            return ast.Compare(left=copy.deepcopy(subject), ops=[ast.Eq()], comparators=[pat.value])
        if isinstance(pat, ast.MatchSingleton):
            return ast.Compare(left=copy.deepcopy(subject), ops=[ast.Is()], comparators=[ast.Constant(value=pat.value)])
        if isinstance(pat, ast.MatchOr):
            parts = [test_of(subject, q) for q in pat.patterns]
            if all(p_ is not None for p_ in parts):
                return ast.BoolOp(op=ast.Or(), values=parts)
        return None

    def lower(st):
        if not simple_subject(st.subject) or any(c.guard is not None for c in st.cases):
            return None
        arms = []
        default = None
        for k, c in enumerate(st.cases):
            if isinstance(c.pattern, ast.MatchAs) and c.pattern.pattern is None and c.pattern.name is None:
                if k != len(st.cases) - 1:
                    return None
                default = c.body
                continue
            t = test_of(st.subject, c.pattern)
            if t is None:
                return None
            arms.append((t, c.body))
        if not arms:
            return None
        node = None
        for t, body in reversed(arms):
            node = ast.If(test=t, body=body, orelse=([node] if node is not None else (default or [])))
        return ast.fix_missing_locations(ast.copy_location(node, st))

    class _M(ast.NodeTransformer):
        def visit_Match(self, node):
            nonlocal changed
            self.generic_visit(node)
            new = lower(node)
            if new is None:
                return node
            changed = True
            return new

    _M().visit(tree)
    return changed


def fold_callable_none_tests(tree: ast.Module) -> bool:
    """`self.<method> is not None` / `<lambda> is None` / `<module function> is not None`: a bound method, a lambda and a
    function defined in this module are never None - the test (left behind when a helper with an optional callable parameter was
    inlined) folds to a constant. Only methods defined with `def` in the enclosing class or an inherited-by-name base in the
    same module count, and only when no method of the class assigns the attribute."""
    changed = False
    mod_funcs = {n.name for n in tree.body if isinstance(n, (ast.FunctionDef, ast.AsyncFunctionDef))}
    mod_assigned = {t.id for n in ast.walk(tree) if isinstance(n, (ast.Assign,)) for t in n.targets if isinstance(t, ast.Name)} | {n.target.id for n in ast.walk(tree) if isinstance(n, (ast.AugAssign, ast.AnnAssign)) and isinstance(n.target, ast.Name)}
    for cls in [n for n in ast.walk(tree) if isinstance(n, ast.ClassDef)] + [None]:
        if cls is not None:
            meths = {m.name for m in cls.body if isinstance(m, (ast.FunctionDef, ast.AsyncFunctionDef)) and not any(_u(d).split(".")[-1] in ("property", "cached_property", "setter") for d in m.decorator_list)}
            stored = {t.attr for m in ast.walk(cls) for t in ast.walk(m) if isinstance(t, ast.Attribute) and isinstance(t.ctx, (ast.Store, ast.Del))}
            meths -= stored
            scope = cls
        else:
            meths = set()
            scope = tree

        class _F(ast.NodeTransformer):
            def visit_Compare(self, node):
                nonlocal changed
                self.generic_visit(node)
                if len(node.ops) == 1 and isinstance(node.ops[0], (ast.Is, ast.IsNot)) and isinstance(node.comparators[0], ast.Constant) and node.comparators[0].value is None:
                    x = node.left
                    never_none = isinstance(x, ast.Lambda) or (isinstance(x, ast.Attribute) and isinstance(x.value, ast.Name) and x.value.id in ("self", "cls") and x.attr in meths) or (isinstance(x, ast.Name) and x.id in mod_funcs and x.id not in mod_assigned and cls is None)
                    if never_none:
                        changed = True
                        return ast.copy_location(ast.Constant(value=isinstance(node.ops[0], ast.IsNot)), node)
                return node

        if cls is not None:
            for m in cls.body:
                if isinstance(m, (ast.FunctionDef, ast.AsyncFunctionDef)):
                    _F().visit(m)
        else:
            for m in tree.body:
                if isinstance(m, (ast.FunctionDef, ast.AsyncFunctionDef)):
                    _F().visit(m)
    return changed


def normalize_module(tree: ast.Module, max_rounds: int = 6, returns_arg: dict | None = None, foreign_refs: set | None = None, foreign_defs: set | None = None, inherited: dict | None = None, property_names: set | None = None) -> ast.Module:
    lower_literal_match(tree)
    hoist_leading_walrus(tree)
    inline_options_alias(tree)
    if property_names is not None:
        inline_lookup_aliases(tree, property_names)
    for _ in range(max_rounds):
        bn = BlockNormalizer()
        bn.run(tree)
        if fold_pure_helpers(tree):
            bn.changed = True
        if fold_generator_helpers(tree):
            bn.changed = True
        if inline_nested_predicates(tree):
            bn.changed = True
        if strip_truth_casts(tree):
            bn.changed = True
        if expand_kwargs_dicts(tree):
            bn.changed = True
        if unfold_reduce(tree):
            bn.changed = True
        if ungroup_by_key(tree):
            bn.changed = True
        if unnest_self_calls(tree):
            bn.changed = True
        if fold_callable_none_tests(tree):
            bn.changed = True
        if separate_returned_argument(tree, returns_arg or {}):
            bn.changed = True
        inl = Inliner(tree, foreign_refs=foreign_refs or set(), foreign_defs=foreign_defs or set(), inherited=inherited or {})
        inl.run()
        if not (bn.changed or inl.changed):
            break
    ast.fix_missing_locations(tree)
    return tree
