"""Seeded mutants (must be reported by the named rules) and benign twins (must stay silent).

Each variant is a textual edit of the current tree: (file, old, new) with `old` occurring exactly once;
a variant whose target text is absent is reported as skipped.  `expect` lists rule ids of which at
least one must report a VIOLATION that the unmodified tree does not have.
"""

CORPUS = []


def M(vid, prop, file, old, new, expect, what=""):
    CORPUS.append({"id": vid, "prop": prop, "kind": "mutant", "file": file, "old": old, "new": new, "expect": expect, "what": what})


def T(vid, prop, file, old, new, what=""):
    CORPUS.append({"id": vid, "prop": prop, "kind": "twin", "file": file, "old": old, "new": new, "what": what})


def MM(vid, prop, edits, expect, what=""):
    CORPUS.append({"id": vid, "prop": prop, "kind": "mutant", "edits": edits, "expect": expect, "what": what})


def TT(vid, prop, edits, what=""):
    CORPUS.append({"id": vid, "prop": prop, "kind": "twin", "edits": edits, "what": what})


EA = "pyhms/demes/ea_deme.py"
DE = "pyhms/demes/de_deme.py"
SH = "pyhms/demes/shade_deme.py"
CMA = "pyhms/demes/cma_deme.py"
LHS = "pyhms/demes/lhs_deme.py"
SOB = "pyhms/demes/sobol_deme.py"
LOC = "pyhms/demes/local_deme.py"
TREE = "pyhms/tree.py"
ABS = "pyhms/demes/abstract_deme.py"
PROB = "pyhms/core/problem.py"
POP = "pyhms/core/population.py"
IND = "pyhms/core/individual.py"
SEA = "pyhms/demes/single_pop_eas/sea.py"
DEPY = "pyhms/demes/single_pop_eas/de.py"
COMMON = "pyhms/demes/single_pop_eas/common.py"
MW = "pyhms/demes/single_pop_eas/multiwinner.py"
FIL = "pyhms/sprout/sprout_filters.py"
GEN = "pyhms/sprout/sprout_generators.py"
MECH = "pyhms/sprout/sprout_mechanisms.py"
HMS = "pyhms/hms.py"
INIT = "pyhms/initializers.py"
DINIT = "pyhms/demes/initialize.py"
GSC = "pyhms/stop_conditions/gsc.py"
NBC = "pyhms/utils/clusterization.py"
PT = "pyhms/utils/print_tree.py"
R5S = "pyhms/utils/r5s.py"

# ----------------------------------------------------------------------------- C05
_EA_GSC = '''            if tree._gsc(tree):
                self._history.append(metaepoch_generations)
                self._active = False
                self.log("EA Deme finished due to GSC")
                return
'''
M("C05-ea-nogsc", "C05", EA, _EA_GSC, "", ["R05.4"], "EA: per-generation GSC check removed")
M("C05-de-continue", "C05", DE, '''                self.log("DE Deme finished due to GSC")
                return
''', '''                self.log("DE Deme finished due to GSC")
                continue
''', ["R05.4"], "DE: GSC-true branch keeps looping")
M("C05-shade-nodeact", "C05", SH, '''                self._history.append(metaepoch_generations)
                self._active = False
                self.log("SHADE Deme finished due to GSC")
''', '''                self._history.append(metaepoch_generations)
                self.log("SHADE Deme finished due to GSC")
''', ["R05.4"], "SHADE: GSC-true branch does not deactivate")
M("C05-cma-nogsc", "C05", CMA, "if (gsc_value := tree._gsc(tree)) or self._cma_es.stop():", "if (gsc_value := False) or self._cma_es.stop():", ["R05.4"], "CMA: GSC not consulted per generation")
M("C05-lhs-nogsc", "C05", LHS, "if (gsc_value := tree._gsc(tree)) or self._lsc(self):", "if (gsc_value := False) or self._lsc(self):", ["R05.4"], "LHS: GSC not consulted")
M("C05-sobol-twogens", "C05", SOB, '''    def run_metaepoch(self, tree) -> None:
        self.run()
''', '''    def run_metaepoch(self, tree) -> None:
        self.run()
        self.run()
''', ["R05.4"], "Sobol: two generations per GSC consult")
M("C05-run-dowhile", "C05", TREE, '''        while not self._gsc(self):
            self.run_step()
''', '''        while True:
            self.run_step()
            if self._gsc(self):
                break
''', ["R05.1"], "run(): do-while (DontRun performs a metaepoch)")
M("C05-sprout-unguarded", "C05", TREE, '''        if not self._gsc(self):
            self.run_sprout()
''', '''        self.run_sprout()
''', ["R05.3"], "run_step sprouts without consulting the GSC")
M("C05-sprout-wrong-polarity", "C05", TREE, '''        if not self._gsc(self):
            self.run_sprout()
''', '''        if self._gsc(self):
            self.run_sprout()
''', ["R05.3"], "run_step sprouts when GSC true")
M("C05-double-increment", "C05", TREE, '''        self.run_metaepoch()
        if not self._gsc(self):
''', '''        self.run_metaepoch()
        if len(self.leaves) > 3:
            self.metaepoch_count += 1
        if not self._gsc(self):
''', ["R05.2"], "second increment of the metaepoch counter on some path")
M("C05-gsc-wrong-arg", "C05", EA, "if tree._gsc(tree):", "if tree._gsc(self):", ["R05.7"], "GSC consulted with the deme (MetaepochLimit then reads the deme's counter)")
M("C05-sprout-from-filter", "C05", FIL, '''        for deme in candidates.keys():
            if len(candidates[deme].individuals) > self.limit:
''', '''        tree = _
        if len(candidates) > 5:
            tree._do_sprout(candidates)
        for deme in candidates.keys():
            if len(candidates[deme].individuals) > self.limit:
''', ["R05.5"], "a filter sprouts by itself")
T("C05-t-ea-stopvar", "C05", EA, "            if tree._gsc(tree):\n", "            stop_now = tree._gsc(tree)\n            if stop_now:\n", "GSC verdict through a local variable")
T("C05-t-run-break", "C05", TREE, '''        while not self._gsc(self):
            self.run_step()
''', '''        while True:
            if self._gsc(self):
                break
            self.run_step()
''', "while True / break form of run()")
T("C05-t-step-var", "C05", TREE, '''        if not self._gsc(self):
            self.run_sprout()
''', '''        gsc_reached = self._gsc(self)
        if not gsc_reached:
            self.run_sprout()
''', "GSC verdict through a local in run_step")
T("C05-t-step-early-return", "C05", TREE, '''        if not self._gsc(self):
            self.run_sprout()
        if len(self.leaves) > 0:
''', '''        if self._gsc(self):
            self._logger.info("Stopping")
        else:
            self.run_sprout()
        if len(self.leaves) > 0:
''', "if/else form")

# ----------------------------------------------------------------------------- C06
M("C06-ea-lsc-negated", "C06", EA, "        if self._lsc(self):\n", "        if not self._lsc(self):\n", ["R06.4"], "EA deactivates when the LSC is false")
M("C06-de-lsc-ignored", "C06", DE, '''        if self._lsc(self):
            self.log("DE Deme finished due to LSC")
            self._active = False
''', '''        self._lsc(self)
''', ["R06.4"], "DE ignores its LSC verdict")
M("C06-local-stays-active", "C06", LOC, '''        # By design local optimization is a one-metaepoch process
        self._active = False
''', '''        # By design local optimization is a one-metaepoch process
''', ["R06.4"], "local deme stays active")
M("C06-step-all-demes", "C06", TREE, "for _, deme in reversed(self.active_demes):", "for _, deme in reversed(self.all_demes):", ["R06.2"], "tree steps inactive demes too")
M("C06-active-unfiltered", "C06", TREE, "        return [(level_no, deme) for level_no in range(self.height) for deme in self.levels[level_no] if deme.is_active]", "        return [(level_no, deme) for level_no in range(self.height) for deme in self.levels[level_no]]", ["R06.2"], "active_demes returns every deme")
M("C06-reactivate", "C06", "pyhms/stop_conditions/lsc.py", '''        if not deme.children:
            return False
''', '''        if not deme.children:
            deme._active = True
            return False
''', ["R06.1"], "a stop condition reactivates a deme")
M("C06-sprout-first", "C06", TREE, '''        self.run_metaepoch()
        if not self._gsc(self):
            self.run_sprout()
''', '''        if not self._gsc(self):
            self.run_sprout()
        self.run_metaepoch()
''', ["R06.5"], "sprouting before stepping")
M("C06-ea-two-appends", "C06", EA, '''            metaepoch_generations.append(offspring)

            if tree._gsc(tree):''', '''            metaepoch_generations.append(offspring)
            if epoch_counter == 2:
                self._history.append([offspring])

            if tree._gsc(tree):''', ["R06.3"], "two history entries in one metaepoch on some path")
M("C06-shade-lsc-before-append", "C06", SH, '''        self._history.append(metaepoch_generations)
        if self._lsc(self):
            self.log("SHADE Deme finished due to LSC")
            self._active = False
''', '''        if self._lsc(self):
            self.log("SHADE Deme finished due to LSC")
            self._active = False
        self._history.append(metaepoch_generations)
''', ["R06.4"], "LSC evaluated before the metaepoch is recorded")
M("C06-skip-some", "C06", TREE, '''            deme.run_metaepoch(self)
''', '''            if deme.level == 0 and self.metaepoch_count % 7 == 0:
                continue
            deme.run_metaepoch(self)
''', ["R06.2"], "an active deme is skipped for a reason other than hibernation")
M("C06-accessor-evaluates", "C06", ABS, "        return max(self.current_population) if self.current_population else None", "        return max(Individual.evaluate_population(self.current_population)) if self.current_population else None", ["R06.6"], "an accessor evaluates")
M("C06-history-pop", "C06", CMA, '''        self._history.append(metaepoch_generations)

        if self._lsc(self) or self._cma_es.stop():''', '''        self._history.append(metaepoch_generations)
        if len(self._history) > 50:
            self._history.pop(1)

        if self._lsc(self) or self._cma_es.stop():''', ["R06.3"], "history trimmed")
T("C06-t-step-local", "C06", TREE, '''        for _, deme in reversed(self.active_demes):
            if "hibernation"''', '''        to_run = list(reversed(self.active_demes))
        for _, deme in to_run:
            if "hibernation"''', "stepping loop over a local snapshot of active_demes")
T("C06-t-ea-lscvar", "C06", EA, "        if self._lsc(self):\n", "        lsc_reached = self._lsc(self)\n        if lsc_reached:\n", "LSC verdict via a local")
T("C06-t-lhs-split", "C06", LHS, '''        if (gsc_value := tree._gsc(tree)) or self._lsc(self):
            self._active = False
            message = "LHS Deme finished due to GSC" if gsc_value else "LHS Deme finished due to LSC"
            self.log(message)
            return
''', '''        if tree._gsc(tree):
            self._active = False
            self.log("LHS Deme finished due to GSC")
            return
        if self._lsc(self):
            self._active = False
            self.log("LHS Deme finished due to LSC")
''', "LHS: separate GSC / LSC branches")
