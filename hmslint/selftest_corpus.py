"""Seeded mutants (must be reported by the named rules) and benign twins (must stay silent).

Each variant is a textual edit of the current tree: (file, old, new) with `old` occurring exactly once;
a variant whose target text is absent is reported as skipped.  `expect` lists rule ids of which at
least one must report a VIOLATION that the unmodified tree does not have.
"""

CORPUS = []


def M(vid, prop, file, old, new, expect, what=""):
    CORPUS.append({"id": vid, "prop": prop, "kind": "mutant", "file": file, "old": old, "new": new, "expect": expect, "what": what})


def T(vid, prop, file, old, new, what=""):
    CORPUS.append({"id": vid, "prop": prop, "kind": "twin", "file": file, "old": old, "new": new, "what": what})


def MM(vid, prop, edits, expect, what=""):
    CORPUS.append({"id": vid, "prop": prop, "kind": "mutant", "edits": edits, "expect": expect, "what": what})


def TT(vid, prop, edits, what=""):
    CORPUS.append({"id": vid, "prop": prop, "kind": "twin", "edits": edits, "what": what})


EA = "pyhms/demes/ea_deme.py"
DE = "pyhms/demes/de_deme.py"
SH = "pyhms/demes/shade_deme.py"
CMA = "pyhms/demes/cma_deme.py"
LHS = "pyhms/demes/lhs_deme.py"
SOB = "pyhms/demes/sobol_deme.py"
LOC = "pyhms/demes/local_deme.py"
TREE = "pyhms/tree.py"
ABS = "pyhms/demes/abstract_deme.py"
PROB = "pyhms/core/problem.py"
POP = "pyhms/core/population.py"
IND = "pyhms/core/individual.py"
SEA = "pyhms/demes/single_pop_eas/sea.py"
DEPY = "pyhms/demes/single_pop_eas/de.py"
COMMON = "pyhms/demes/single_pop_eas/common.py"
MW = "pyhms/demes/single_pop_eas/multiwinner.py"
FIL = "pyhms/sprout/sprout_filters.py"
GEN = "pyhms/sprout/sprout_generators.py"
MECH = "pyhms/sprout/sprout_mechanisms.py"
HMS = "pyhms/hms.py"
INIT = "pyhms/initializers.py"
DINIT = "pyhms/demes/initialize.py"
GSC = "pyhms/stop_conditions/gsc.py"
NBC = "pyhms/utils/clusterization.py"
PT = "pyhms/utils/print_tree.py"
R5S = "pyhms/utils/r5s.py"

# ----------------------------------------------------------------------------- C05
_EA_GSC = '''            if tree._gsc(tree):
                self._history.append(metaepoch_generations)
                self._active = False
                self.log("EA Deme finished due to GSC")
                return
'''
M("C05-ea-nogsc", "C05", EA, _EA_GSC, "", ["R05.4"], "EA: per-generation GSC check removed")
M("C05-de-continue", "C05", DE, '''                self.log("DE Deme finished due to GSC")
                return
''', '''                self.log("DE Deme finished due to GSC")
                continue
''', ["R05.4"], "DE: GSC-true branch keeps looping")
M("C05-shade-nodeact", "C05", SH, '''                self._history.append(metaepoch_generations)
                self._active = False
                self.log("SHADE Deme finished due to GSC")
''', '''                self._history.append(metaepoch_generations)
                self.log("SHADE Deme finished due to GSC")
''', ["R05.4"], "SHADE: GSC-true branch does not deactivate")
M("C05-cma-nogsc", "C05", CMA, "if (gsc_value := tree._gsc(tree)) or self._cma_es.stop():", "if (gsc_value := False) or self._cma_es.stop():", ["R05.4"], "CMA: GSC not consulted per generation")
# the tree's own GSC checks still bound the wind-down (C05 holds); the deme that never looks at the GSC is C06's concern
T("C05-t-lhs-nogsc", "C05", LHS, "if (gsc_value := tree._gsc(tree)) or self._lsc(self):", "if (gsc_value := False) or self._lsc(self):", "LHS: GSC not consulted by the deme; run() and run_step() still consult it")
M("C06-lhs-nogsc", "C06", LHS, "if (gsc_value := tree._gsc(tree)) or self._lsc(self):", "if (gsc_value := False) or self._lsc(self):", ["R06.9", "R06.4"], "LHS: GSC not consulted")
M("C05-sobol-twogens", "C05", SOB, '''    def run_metaepoch(self, tree) -> None:
        self.run()
''', '''    def run_metaepoch(self, tree) -> None:
        self.run()
        self.run()
''', ["R05.4"], "Sobol: two generations per GSC consult")
M("C05-run-dowhile", "C05", TREE, '''        while not self._gsc(self):
            self.run_step()
''', '''        while True:
            self.run_step()
            if self._gsc(self):
                break
''', ["R05.1"], "run(): do-while (DontRun performs a metaepoch)")
M("C05-sprout-unguarded", "C05", TREE, '''        if not self._gsc(self):
            self.run_sprout()
''', '''        self.run_sprout()
''', ["R05.3"], "run_step sprouts without consulting the GSC")
M("C05-sprout-wrong-polarity", "C05", TREE, '''        if not self._gsc(self):
            self.run_sprout()
''', '''        if self._gsc(self):
            self.run_sprout()
''', ["R05.3"], "run_step sprouts when GSC true")
M("C05-double-increment", "C05", TREE, '''        self.run_metaepoch()
        if not self._gsc(self):
''', '''        self.run_metaepoch()
        if len(self.leaves) > 3:
            self.metaepoch_count += 1
        if not self._gsc(self):
''', ["R05.2"], "second increment of the metaepoch counter on some path")
M("C05-gsc-wrong-arg", "C05", EA, "if tree._gsc(tree):", "if tree._gsc(self):", ["R05.7"], "GSC consulted with the deme (MetaepochLimit then reads the deme's counter)")
M("C05-sprout-from-filter", "C05", FIL, '''        for deme in candidates.keys():
            if len(candidates[deme].individuals) > self.limit:
''', '''        tree = _
        if len(candidates) > 5:
            tree._do_sprout(candidates)
        for deme in candidates.keys():
            if len(candidates[deme].individuals) > self.limit:
''', ["R05.5"], "a filter sprouts by itself")
T("C05-t-ea-stopvar", "C05", EA, "            if tree._gsc(tree):\n", "            stop_now = tree._gsc(tree)\n            if stop_now:\n", "GSC verdict through a local variable")
T("C05-t-run-break", "C05", TREE, '''        while not self._gsc(self):
            self.run_step()
''', '''        while True:
            if self._gsc(self):
                break
            self.run_step()
''', "while True / break form of run()")
T("C05-t-step-var", "C05", TREE, '''        if not self._gsc(self):
            self.run_sprout()
''', '''        gsc_reached = self._gsc(self)
        if not gsc_reached:
            self.run_sprout()
''', "GSC verdict through a local in run_step")
T("C05-t-step-early-return", "C05", TREE, '''        if not self._gsc(self):
            self.run_sprout()
        if len(self.leaves) > 0:
''', '''        if self._gsc(self):
            self._logger.info("Stopping")
        else:
            self.run_sprout()
        if len(self.leaves) > 0:
''', "if/else form")

# ----------------------------------------------------------------------------- C06
M("C06-ea-lsc-negated", "C06", EA, "        if self._lsc(self):\n", "        if not self._lsc(self):\n", ["R06.4"], "EA deactivates when the LSC is false")
M("C06-de-lsc-ignored", "C06", DE, '''        if self._lsc(self):
            self.log("DE Deme finished due to LSC")
            self._active = False
''', '''        self._lsc(self)
''', ["R06.4"], "DE ignores its LSC verdict")
M("C06-local-stays-active", "C06", LOC, '''        # By design local optimization is a one-metaepoch process
        self._active = False
''', '''        # By design local optimization is a one-metaepoch process
''', ["R06.4"], "local deme stays active")
M("C06-step-all-demes", "C06", TREE, "for _, deme in reversed(self.active_demes):", "for _, deme in reversed(self.all_demes):", ["R06.2"], "tree steps inactive demes too")
M("C06-active-unfiltered", "C06", TREE, "        return [(level_no, deme) for level_no in range(self.height) for deme in self.levels[level_no] if deme.is_active]", "        return [(level_no, deme) for level_no in range(self.height) for deme in self.levels[level_no]]", ["R06.2"], "active_demes returns every deme")
M("C06-reactivate", "C06", "pyhms/stop_conditions/lsc.py", '''        if not deme.children:
            return False
''', '''        if not deme.children:
            deme._active = True
            return False
''', ["R06.1"], "a stop condition reactivates a deme")
M("C06-sprout-first", "C06", TREE, '''        self.run_metaepoch()
        if not self._gsc(self):
            self.run_sprout()
''', '''        if not self._gsc(self):
            self.run_sprout()
        self.run_metaepoch()
''', ["R06.5"], "sprouting before stepping")
M("C06-ea-two-appends", "C06", EA, '''            metaepoch_generations.append(offspring)

            if tree._gsc(tree):''', '''            metaepoch_generations.append(offspring)
            if epoch_counter == 2:
                self._history.append([offspring])

            if tree._gsc(tree):''', ["R06.3"], "two history entries in one metaepoch on some path")
M("C06-shade-lsc-before-append", "C06", SH, '''        self._history.append(metaepoch_generations)
        if self._lsc(self):
            self.log("SHADE Deme finished due to LSC")
            self._active = False
''', '''        if self._lsc(self):
            self.log("SHADE Deme finished due to LSC")
            self._active = False
        self._history.append(metaepoch_generations)
''', ["R06.4"], "LSC evaluated before the metaepoch is recorded")
M("C06-skip-some", "C06", TREE, '''            deme.run_metaepoch(self)
''', '''            if deme.level == 0 and self.metaepoch_count % 7 == 0:
                continue
            deme.run_metaepoch(self)
''', ["R06.2"], "an active deme is skipped for a reason other than hibernation")
M("C06-accessor-evaluates", "C06", ABS, "        return max(self.current_population) if self.current_population else None", "        return max(Individual.evaluate_population(self.current_population)) if self.current_population else None", ["R06.6"], "an accessor evaluates")
M("C06-history-pop", "C06", CMA, '''        self._history.append(metaepoch_generations)

        if self._lsc(self) or self._cma_es.stop():''', '''        self._history.append(metaepoch_generations)
        if len(self._history) > 50:
            self._history.pop(1)

        if self._lsc(self) or self._cma_es.stop():''', ["R06.3"], "history trimmed")
T("C06-t-step-local", "C06", TREE, '''        for _, deme in reversed(self.active_demes):
            if "hibernation"''', '''        to_run = list(reversed(self.active_demes))
        for _, deme in to_run:
            if "hibernation"''', "stepping loop over a local snapshot of active_demes")
T("C06-t-ea-lscvar", "C06", EA, "        if self._lsc(self):\n", "        lsc_reached = self._lsc(self)\n        if lsc_reached:\n", "LSC verdict via a local")
T("C06-t-lhs-split", "C06", LHS, '''        if (gsc_value := tree._gsc(tree)) or self._lsc(self):
            self._active = False
            message = "LHS Deme finished due to GSC" if gsc_value else "LHS Deme finished due to LSC"
            self.log(message)
            return
''', '''        if tree._gsc(tree):
            self._active = False
            self.log("LHS Deme finished due to GSC")
            return
        if self._lsc(self):
            self._active = False
            self.log("LHS Deme finished due to LSC")
''', "LHS: separate GSC / LSC branches")

# ----------------------------------------------------------------------------- C16
_CNT_EVAL = '''    def evaluate(self, phenome, *args, **kwargs):
        ret_val = self._inner.evaluate(phenome, *args, **kwargs)
        self._n_evals += 1
        return ret_val

    @property
    def n_evaluations(self) -> int:
        return self._n_evals

    def __str__(self) -> str:
        if isinstance(self._inner, Problem):
            inner_str = f"Problem({self._inner.__dict__})"
        else:
            inner_str = str(self._inner)
        return f"EvalCountingProblem({inner_str})"
'''
M("C16-double-forward", "C16", PROB, _CNT_EVAL, _CNT_EVAL.replace("        ret_val = self._inner.evaluate(phenome, *args, **kwargs)\n", "        ret_val = self._inner.evaluate(phenome, *args, **kwargs)\n        if ret_val != ret_val:\n            ret_val = self._inner.evaluate(phenome, *args, **kwargs)\n"), ["R16.1", "R16.2"], "NaN result re-evaluated without counting")
M("C16-args-dropped", "C16", PROB, _CNT_EVAL, _CNT_EVAL.replace("self._inner.evaluate(phenome, *args, **kwargs)", "self._inner.evaluate(phenome, *args)"), ["R16.1"], "kwargs not forwarded")
M("C16-result-changed", "C16", PROB, '''        self._durations.append(end_time - start_time)
        return ret_val
''', '''        self._durations.append(end_time - start_time)
        return float(ret_val)
''', ["R16.1"], "stats wrapper converts the result")
M("C16-missing-increment", "C16", PROB, '''        end_time = time.perf_counter()
        self._n_evals += 1
''', '''        end_time = time.perf_counter()
        if end_time > start_time:
            self._n_evals += 1
''', ["R16.2"], "stats wrapper skips the count for instantaneous evaluations")
M("C16-cutoff-gt", "C16", PROB, "if self._n_evals >= self._eval_cutoff:", "if self._n_evals > self._eval_cutoff:", ["R16.3"], "cutoff off by one")
M("C16-sentinel-swapped", "C16", PROB, "return -np.inf if self._inner.maximize else np.inf", "return np.inf if self._inner.maximize else -np.inf", ["R16.3"], "refusal returns the best value")
M("C16-eta-zero-based", "C16", PROB, "            self.ETA = self._n_evals\n", "            self.ETA = self._n_evals - 1\n", ["R16.4"], "0-based ETA")
M("C16-eta-overwritten", "C16", PROB, "if abs(fitness - self._global_optima) <= self.precision and not self.hit_precision:", "if abs(fitness - self._global_optima) <= self.precision:", ["R16.4"], "ETA overwritten by later hits")
M("C16-flag-unset", "C16", PROB, '''            self.hit_precision = True
        return fitness
''', '''            self.hit_precision = True
        elif abs(fitness - self._global_optima) > 10 * self.precision:
            self.hit_precision = False
        return fitness
''', ["R16.4"], "flag un-set when a later evaluation is far off")
M("C16-eta-before-forward", "C16", PROB, '''        fitness = super().evaluate(phenome, *args, **kwargs)
        if abs(fitness - self._global_optima) <= self.precision and not self.hit_precision:
            self.ETA = self._n_evals
''', '''        eta = self._n_evals
        fitness = super().evaluate(phenome, *args, **kwargs)
        if abs(fitness - self._global_optima) <= self.precision and not self.hit_precision:
            self.ETA = eta
''', ["R16.4"], "ETA taken before the evaluation was counted")
M("C16-override-maximize", "C16", PROB, '''    def __init__(self, decorated_problem: Problem, eval_cutoff: int):
        super().__init__(decorated_problem)
        self._eval_cutoff = eval_cutoff
''', '''    def __init__(self, decorated_problem: Problem, eval_cutoff: int):
        super().__init__(decorated_problem)
        self._eval_cutoff = eval_cutoff

    @property
    def maximize(self) -> bool:
        return False
''', ["R16.5"], "a wrapper overrides the direction")
M("C16-pinned-no-equivalent", "C16", PROB, '''    def equivalent(self, first_fitness, second_fitness):
        return self._inner.equivalent(first_fitness, second_fitness)

    @property
    def bounds(self) -> np.ndarray:
        return self._inner.bounds
''', '''    @property
    def bounds(self) -> np.ndarray:
        return self._inner.bounds
''', ["R16.5"], "pinned defect: equivalent not delegated")
M("C16-worse-than-swapped", "C16", PROB, "return self._inner.worse_than(first_fitness, second_fitness)", "return self._inner.worse_than(second_fitness, first_fitness)", ["R16.5"], "comparison arguments swapped by the wrapper")
M("C16-gsc-not-sticky", "C16", GSC, "        return self.problem.hit_precision\n", "        return abs(tree.best_individual.fitness - self.problem._global_optima) <= self.problem.precision\n", ["R16.7"], "precision GSC recomputed instead of the sticky flag")
M("C16-inner-rebound", "C16", PROB, '''        if self._cache and (cached_value := self._cache.get(genome)):
            return cached_value
''', '''        if self._cache and (cached_value := self._cache.get(genome)):
            return cached_value
        if isinstance(genome, ProblemWrapper):
            genome._inner = self
''', ["R16.6"], "_inner rebound outside a constructor")
T("C16-t-direct-return", "C16", PROB, '''    def evaluate(self, phenome, *args, **kwargs):
        ret_val = self._inner.evaluate(phenome, *args, **kwargs)
        return ret_val

    def worse_than''', '''    def evaluate(self, phenome, *args, **kwargs):
        return self._inner.evaluate(phenome, *args, **kwargs)

    def worse_than''', "direct return of the forwarded call")
T("C16-t-cutoff-inverted", "C16", PROB, '''        if self._n_evals >= self._eval_cutoff:
            return -np.inf if self._inner.maximize else np.inf
        return super().evaluate(phenome, *args, **kwargs)
''', '''        if self._n_evals < self._eval_cutoff:
            return super().evaluate(phenome, *args, **kwargs)
        return -np.inf if self._inner.maximize else np.inf
''', "guard written the other way round")
T("C16-t-precision-nested", "C16", PROB, '''        if abs(fitness - self._global_optima) <= self.precision and not self.hit_precision:
            self.ETA = self._n_evals
            self.hit_precision = True
''', '''        if not self.hit_precision:
            if abs(fitness - self._global_optima) <= self.precision:
                self.hit_precision = True
                self.ETA = self._n_evals
''', "nested ifs, stores reordered")

# ----------------------------------------------------------------------------- C03
M("C03-pinned-nfev", "C03", HMS, "        nfev=wrapped_function_problem.n_evaluations if maxfun else hms_tree.n_evaluations,\n", "        nfev=hms_tree.n_evaluations,\n", ["R03.4"], "pinned defect: nfev = sum of deme request counters")
M("C03-cutoff-gt", "C03", PROB, "if self._n_evals >= self._eval_cutoff:", "if self._n_evals > self._eval_cutoff:", ["R03.1"], "budget exceeded by one")
M("C03-count-before-refuse", "C03", PROB, '''        if self._n_evals >= self._eval_cutoff:
            return -np.inf if self._inner.maximize else np.inf
''', '''        if self._n_evals >= self._eval_cutoff:
            self._n_evals += 1
            return -np.inf if self._inner.maximize else np.inf
''', ["R03.1"], "refused requests are counted")
M("C03-total-active-only", "C03", TREE, "        return sum(deme.n_evaluations for _, deme in self.all_demes)", "        return sum(deme.n_evaluations for _, deme in self.active_demes)", ["R03.3"], "tree total forgets stopped demes")
M("C03-seed-uncounted", "C03", DE, "            seed_ind = Individual(x0, problem=self._problem)", "            seed_ind = Individual(x0, problem=self._config.problem)", ["R03.2"], "seed individual evaluated through the raw problem")
M("C03-cma-uncounted", "C03", CMA, "            offspring = [Individual(solution, problem=self._problem) for solution in self._cma_es.ask()]", "            offspring = [Individual(solution, problem=self.config.problem) for solution in self._cma_es.ask()]", ["R03.2"], "CMA offspring evaluated through the raw problem")
M("C03-leaf-unwrapped", "C03", HMS, '''            generations=get_default_generations(bounds, tree_level=1),
            problem=wrapped_function_problem,''', '''            generations=get_default_generations(bounds, tree_level=1),
            problem=function_problem,''', ["R03.5", "R03.4"], "leaf level bypasses the cutoff")
M("C03-local-adds-nit", "C03", LOC, "        self._n_evals += result.nfev\n", "        self._n_evals += result.nfev + result.nit\n", ["R03.3"], "local deme over-counts")
M("C03-local-fun-twice", "C03", LOC, '''        def fun(x):
            return self._sign * self._problem.evaluate(x)
''', '''        def fun(x):
            value = self._problem.evaluate(x)
            if value != value:
                value = self._problem.evaluate(x)
            return self._sign * value
''', ["R03.2", "R03.3"], "local objective may evaluate twice per scipy call")
M("C05-gsc-root-only", "C05", GSC, "        return tree.n_evaluations >= self.limit", "        return tree.root.n_evaluations >= self.limit", ["R05.9"], "eval-limit GSC reads the root's counter only")
M("C03-level-sum-filtered", "C03", TREE, 'sum(deme.n_evaluations for deme in level_demes)', 'sum(deme.n_evaluations for deme in level_demes if deme.is_active)', ["R03.3"], "per-level total over active demes only")
M("C03-direct-objective", "C03", POP, "        fitness_values = [self.problem.evaluate(genome, *args, **kwargs) for genome in self.genomes[nan_mask]]", "        fitness_values = [self.problem.evaluate(genome, *args, **kwargs) if len(self.genomes) > 3 else self.problem._inner.fitness_function(genome) for genome in self.genomes[nan_mask]]", ["R03.7"], "objective invoked directly for tiny populations")
M("C03-gsc-wrong-limit", "C03", HMS, "SingularProblemEvalLimitReached(maxfun) if maxfun is not None else MetaepochLimit(maxiter)", "SingularProblemEvalLimitReached(2 * maxfun) if maxfun is not None else MetaepochLimit(maxiter)", ["R03.5"], "GSC built from a different limit")
T("C03-t-nfev-local", "C03", HMS, '''    return OptimizeResult(
        x=hms_tree.best_individual.genome,
        # Once the cutoff refuses evaluations the demes' counters run ahead of the real number of calls.
        nfev=wrapped_function_problem.n_evaluations if maxfun else hms_tree.n_evaluations,
''', '''    n_calls = wrapped_function_problem.n_evaluations if maxfun else hms_tree.n_evaluations
    return OptimizeResult(
        x=hms_tree.best_individual.genome,
        nfev=n_calls,
''', "nfev through a local")
T("C03-t-total-levels", "C03", TREE, "        return sum(deme.n_evaluations for _, deme in self.all_demes)", "        return sum(deme.n_evaluations for level in self._levels for deme in level)", "tree total over levels directly")
T("C03-t-local-lambda", "C03", LOC, '''        def fun(x):
            return self._sign * self._problem.evaluate(x)
''', '''        fun = lambda x: self._sign * self._problem.evaluate(x)  # noqa: E731
''', "objective as a lambda")

# ----------------------------------------------------------------------------- C11
M("C11-pinned-ea", "C11", EA, '''        parents = self.current_population
        while epoch_counter < self._generations:
            offspring = self._ea.run(parents, mutation_std=self._get_mutation_std())
            parents = offspring
''', '''        while epoch_counter < self._generations:
            offspring = self._ea.run(self.current_population, mutation_std=self._get_mutation_std())
''', ["R11.1"], "pinned defect (EA)")
M("C11-pinned-de", "C11", DE, '''        parents = self.current_population
        while epoch_counter < self._generations:
            offspring = self._de.run(parents)
            parents = offspring
''', '''        while epoch_counter < self._generations:
            offspring = self._de.run(self.current_population)
''', ["R11.1"], "pinned defect (DE)")
M("C11-pinned-shade", "C11", SH, '''        parents = self.current_population
        while epoch_counter < self._generations:
            offspring = self._shade.run(parents)
            parents = offspring
''', '''        while epoch_counter < self._generations:
            offspring = self._shade.run(self.current_population)
''', ["R11.1"], "pinned defect (SHADE)")
M("C11-ea-no-update", "C11", EA, "            parents = offspring\n", "", ["R11.1"], "parents local never updated")
M("C11-de-conditional-update", "C11", DE, "            parents = offspring\n", "            if epoch_counter % 2 == 0:\n                parents = offspring\n", ["R11.1"], "parents updated every other generation only")
M("C11-cma-stale-values", "C11", CMA, "            values = [sign * ind.fitness for ind in offspring]\n", "", ["R11.1"], "CMA told the first generation's values every time")
M("C11-cma-stale-genomes", "C11", CMA, "            genomes = [ind.genome for ind in offspring]\n", "", ["R11.1"], "CMA told the first generation's genomes every time")
M("C11-shade-entry-first-pop", "C11", SH, "        parents = self.current_population\n", "        parents = self.history[0]\n", ["R11.2"], "every metaepoch restarts from the initial population")
M("C11-ea-record-parents", "C11", EA, '''            parents = offspring
            epoch_counter += 1
            metaepoch_generations.append(offspring)
''', '''            metaepoch_generations.append(parents)
            parents = offspring
            epoch_counter += 1
''', ["R11.3"], "the generation recorded lags one behind")
T("C11-t-rename", "C11", DE, '''        parents = self.current_population
        while epoch_counter < self._generations:
            offspring = self._de.run(parents)
            parents = offspring
''', '''        current = self.current_population
        while epoch_counter < self._generations:
            offspring = self._de.run(current)
            current = list(offspring)
''', "renamed local, list() copy")
T("C11-t-single-name", "C11", SH, '''        parents = self.current_population
        while epoch_counter < self._generations:
            offspring = self._shade.run(parents)
            parents = offspring

            epoch_counter += 1
            metaepoch_generations.append(offspring)
''', '''        population = self.current_population
        while epoch_counter < self._generations:
            population = self._shade.run(population)

            epoch_counter += 1
            metaepoch_generations.append(population)
''', "one name threaded through the loop")

# ----------------------------------------------------------------------------- C18
_HIB_LOOP = '''        deme_seeds = self._sprout_mechanism.get_seeds(self)
        # Demes created by this round did not take part in it: they start awake.
        demes_in_round = list(reversed(self.active_non_leaves))
        self._do_sprout(deme_seeds)

        if "hibernation" in self.config.options and self.config.options["hibernation"]:
            for _, deme in demes_in_round:
'''
M("C18-pinned", "C18", TREE, _HIB_LOOP, '''        deme_seeds = self._sprout_mechanism.get_seeds(self)
        self._do_sprout(deme_seeds)

        if "hibernation" in self.config.options and self.config.options["hibernation"]:
            for _, deme in reversed(self.active_non_leaves):
''', ["R18.4"], "pinned defect: flags recomputed over demes created by the round")
M("C18-snapshot-after", "C18", TREE, '''        demes_in_round = list(reversed(self.active_non_leaves))
        self._do_sprout(deme_seeds)
''', '''        self._do_sprout(deme_seeds)
        demes_in_round = list(reversed(self.active_non_leaves))
''', ["R18.4"], "snapshot taken after sprouting")
M("C18-skip-unconditional", "C18", TREE, '''            if "hibernation" in self.config.options and self.config.options["hibernation"] and deme._hibernating:
                continue
''', '''            if deme._hibernating:
                continue
''', ["R18.1"], "skip does not depend on the option")
M("C18-skip-removed", "C18", TREE, '''            if "hibernation" in self.config.options and self.config.options["hibernation"] and deme._hibernating:
                continue

''', "", ["R18.1"], "hibernating demes are stepped")
M("C18-skip-or", "C18", TREE, '''            if "hibernation" in self.config.options and self.config.options["hibernation"] and deme._hibernating:
                continue
''', '''            if "hibernation" in self.config.options and (self.config.options["hibernation"] or deme._hibernating):
                continue
''', ["R18.1"], "and -> or in the skip condition")
M("C18-flags-without-option", "C18", TREE, '''        if "hibernation" in self.config.options and self.config.options["hibernation"]:
            for _, deme in demes_in_round:''', '''        if "hibernation" in self.config.options:
            for _, deme in demes_in_round:''', ["R18.2"], "flags written when the option is present but False")
M("C18-polarity-swapped", "C18", TREE, "                if deme in deme_seeds:\n                    if deme._hibernating:", "                if deme not in deme_seeds:\n                    if deme._hibernating:", ["R18.3"], "sprouting demes fall asleep, idle ones wake up")
M("C18-leaves-included", "C18", TREE, "        demes_in_round = list(reversed(self.active_non_leaves))\n", "        demes_in_round = list(reversed(self.active_demes))\n", ["R18.3"], "leaf demes are put to sleep")
M("C18-flag-elsewhere", "C18", "pyhms/stop_conditions/lsc.py", '''        if not deme.children:
            return False
''', '''        if not deme.children:
            deme._hibernating = deme.metaepoch_count > 10
            return False
''', ["R18.2"], "a stop condition puts demes to sleep")
M("C18-seeds-refiltered", "C18", TREE, "        self._do_sprout(deme_seeds)\n\n        if \"hibernation\"", "        self._do_sprout(deme_seeds)\n        deme_seeds = {d: c for d, c in deme_seeds.items() if d.level == 0}\n\n        if \"hibernation\"", ["R18.3"], "membership tested against a different mapping than the one sprouted")
T("C18-t-option-local", "C18", TREE, '''        if "hibernation" in self.config.options and self.config.options["hibernation"]:
            for _, deme in demes_in_round:''', '''        hibernation_on = "hibernation" in self.config.options and self.config.options["hibernation"]
        if hibernation_on:
            for _, deme in demes_in_round:''', "option test through a local")
T("C18-t-get", "C18", TREE, '''            if "hibernation" in self.config.options and self.config.options["hibernation"] and deme._hibernating:
                continue
''', '''            if self.config.options.get("hibernation") and deme._hibernating:
                continue
''', "options.get form")
T("C18-t-nested-skip", "C18", TREE, '''            if "hibernation" in self.config.options and self.config.options["hibernation"] and deme._hibernating:
                continue

            deme.run_metaepoch(self)
''', '''            if "hibernation" in self.config.options and self.config.options["hibernation"]:
                if deme._hibernating:
                    continue
            deme.run_metaepoch(self)
''', "nested ifs")

# ----------------------------------------------------------------------------- C09
_GETTER_NOW = '''    def centroid(self) -> np.ndarray:
        return compute_centroid(self.current_population)
'''
_GETTER_MEMO = '''    def centroid(self) -> np.ndarray:
        if self._centroid is None:
            self._centroid = compute_centroid(self.current_population)
        return self._centroid
'''
M("C09-pinned-memo", "C09", ABS, _GETTER_NOW, _GETTER_MEMO, ["R09.1"], "pinned defect: memo reset only by CMADeme")
M("C09-all-individuals", "C09", ABS, "        return compute_centroid(self.current_population)\n", "        return compute_centroid(self.all_individuals)\n", ["R09.1", "R09.2"], "centroid of the whole history")
M("C09-axis1", "C09", ABS, "    return np.mean([ind.genome for ind in population], axis=0)", "    return np.mean([ind.genome for ind in population], axis=1)", ["R09.2"], "mean over the wrong axis")
M("C09-median", "C09", ABS, "    return np.mean([ind.genome for ind in population], axis=0)", "    return np.median([ind.genome for ind in population], axis=0)", ["R09.2"], "median instead of mean")
M("C09-half-pop", "C09", ABS, "    return np.mean([ind.genome for ind in population], axis=0)", "    return np.mean([ind.genome for ind in population[: max(1, len(population) // 2)]], axis=0)", ["R09.2"], "mean over half the population")
M("C09-lt", "C09", FIL, "return nla.norm(ind.genome - centroid, ord=self.norm_ord) > self.min_distance\n", "return nla.norm(ind.genome - centroid, ord=self.norm_ord) < self.min_distance\n", ["R09.3"], "comparator reversed")
M("C09-ge", "C09", FIL, "return nla.norm(ind.genome - centroid, ord=self.norm_ord) > self.min_distance_factor * mean_dist", "return nla.norm(ind.genome - centroid, ord=self.norm_ord) >= self.min_distance_factor * mean_dist", ["R09.3"], "non-strict comparator in NBC_FarEnough")
M("C09-seed-not-centroid", "C09", FIL, "child_seeds = [ind for ind in child_seeds if self._is_far_enough(ind, sibling.centroid)]", "child_seeds = [ind for ind in child_seeds if self._is_far_enough(ind, sibling._sprout_seed.genome)]", ["R09.3"], "distance to the sibling's seed instead of its centroid")
M("C09-some-sibling", "C09", FIL, '''            for sibling in child_siblings:
                child_seeds = [ind for ind in child_seeds if self._is_far_enough(ind, sibling.centroid)]
            candidates[deme].individuals = child_seeds
''', '''            if child_siblings:
                child_seeds = [ind for ind in child_seeds if any(self._is_far_enough(ind, s.centroid) for s in child_siblings)]
            candidates[deme].individuals = child_seeds
''', ["R09.3"], "far from SOME sibling")
# property-holding variant (stricter than required: a superset of the configured siblings is compared with): must stay silent
T("C09-t-no-activity-filter", "C09", FIL, "child_siblings = [sibling for sibling in tree.levels[deme.level + 1] if sibling.is_active]", "child_siblings = [sibling for sibling in tree.levels[deme.level + 1]]", "FarEnough compares with stopped demes too: every configured sibling is still compared with")
M("C09-check-only-active-ignored", "C09", FIL, "sibling for sibling in tree.levels[deme.level + 1] if (sibling.is_active or not self.check_only_active)", "sibling for sibling in tree.levels[deme.level + 1] if sibling.is_active", ["R09.3"], "NBC_FarEnough ignores inactive siblings even when configured to consider all")
M("C09-wrong-level", "C09", FIL, "child_siblings = [sibling for sibling in tree.levels[deme.level + 1] if sibling.is_active]", "child_siblings = [sibling for sibling in tree.levels[deme.level] if sibling.is_active]", ["R09.3"], "siblings taken from the parent's level")
M("C09-first-sibling-only", "C09", FIL, '''                child_seeds = [ind for ind in child_seeds if self._is_far_enough(ind, sibling.centroid)]
            candidates[deme].individuals = child_seeds''', '''                child_seeds = [ind for ind in child_seeds if self._is_far_enough(ind, sibling.centroid)]
                if len(child_seeds) <= 1:
                    break
            candidates[deme].individuals = child_seeds''', ["R09.3"], "loop over siblings stops early")
M("C09-feature-other-pop", "C09", GEN, '''class NBC_Generator(SproutCandidatesGenerator):''', '''class _Unused:
    pass


class NBC_Generator(SproutCandidatesGenerator):''', ["R09.4"], "placeholder (replaced below)")
CORPUS.pop()
MM("C09-feature-other-pop", "C09", [(GEN, '''                    deme_candidate_inds = nbc.cluster()
                    candidates[deme] = DemeCandidates(
                        individuals=deme_candidate_inds,
                        features=DemeFeatures(nbc_mean_distance=np.mean(nbc.distances)),
                    )
        return candidates  # type: ignore[return-value]


class NBCGeneratorWithLocalMethod''', '''                    deme_candidate_inds = nbc.cluster()
                    wide = NearestBetterClustering(deme.all_individuals, self.distance_factor, 1.0)
                    wide.cluster()
                    candidates[deme] = DemeCandidates(
                        individuals=deme_candidate_inds,
                        features=DemeFeatures(nbc_mean_distance=np.mean(wide.distances)),
                    )
        return candidates  # type: ignore[return-value]


class NBCGeneratorWithLocalMethod''')], ["R09.4"], "mean distance taken from a clustering of the whole history")
_RESET = "self._centroid = None\n"
TT("C09-t-memo-with-resets", "C09", [
    (ABS, _GETTER_NOW, _GETTER_MEMO),
    (EA, "        self._history.append([starting_pop])\n", "        self._history.append([starting_pop])\n        " + _RESET),
    (EA, '''                self._history.append(metaepoch_generations)
                self._active = False
                self.log("EA Deme finished due to GSC")''', '''                self._history.append(metaepoch_generations)
                self._centroid = None
                self._active = False
                self.log("EA Deme finished due to GSC")'''),
    (EA, "        self._history.append(metaepoch_generations)\n        if self._lsc(self):", "        self._history.append(metaepoch_generations)\n        self._centroid = None\n        if self._lsc(self):"),
    (DE, '''                self._history.append(metaepoch_generations)
                self._active = False''', '''                self._history.append(metaepoch_generations)
                self._centroid = None
                self._active = False'''),
    (DE, "        self._history.append(metaepoch_generations)\n        if self._lsc(self):", "        self._history.append(metaepoch_generations)\n        self._centroid = None\n        if self._lsc(self):"),
    (SH, '''                self._history.append(metaepoch_generations)
                self._active = False''', '''                self._history.append(metaepoch_generations)
                self._centroid = None
                self._active = False'''),
    (SH, "        self._history.append(metaepoch_generations)\n        if self._lsc(self):", "        self._history.append(metaepoch_generations)\n        self._centroid = None\n        if self._lsc(self):"),
    (LHS, "        self._history.append([population])\n", "        self._history.append([population])\n        self._centroid = None\n"),
    (SOB, "        self._history.append([population])\n", "        self._history.append([population])\n        self._centroid = None\n"),
    (LOC, "        self._history.append([self._run_history])\n", "        self._history.append([self._run_history])\n        self._centroid = None\n"),
], "memoised centroid with a reset after every append")
T("C09-t-mean-method", "C09", ABS, "    return np.mean([ind.genome for ind in population], axis=0)", "    genomes = np.array([ind.genome for ind in population])\n    return np.mean(np.array([ind.genome for ind in population]), axis=0)", "np.array wrapper")

# ----------------------------------------------------------------------------- C20
M("C20-pinned-marker", "C20", PT, '    best_symbol = " *** " if best_fitness is not None and deme.best_individual.fitness == best_fitness else " "', '    best_symbol = " *** " if best_fitness and deme.best_individual.fitness == best_fitness else " "', ["R20.2"], "pinned defect: truthiness of best_fitness")
M("C20-pinned-highlight", "C20", PT, "    is_best = best_fitness is not None and deme.best_individual.fitness == best_fitness", "    is_best = best_fitness and deme.best_individual.fitness == best_fitness", ["R20.2"], "pinned defect in the diagram attributes")
M("C20-marker-ge", "C20", PT, '    best_symbol = " *** " if best_fitness is not None and deme.best_individual.fitness == best_fitness else " "', '    best_symbol = " *** " if best_fitness is not None and deme.best_individual.fitness <= best_fitness else " "', ["R20.2"], "marker by <= instead of ==")
M("C20-accessor-evaluates", "C20", ABS, "        return max(self.all_individuals) if self.all_individuals else None", "        return max(Individual.evaluate_population(self.all_individuals)) if self.all_individuals else None", ["R20.1"], "best_individual re-evaluates")
M("C20-accessor-sorts-history", "C20", ABS, "        return max(self.current_population) if self.current_population else None", "        pop = self.current_population\n        pop.sort()\n        return pop[-1] if pop else None", ["R20.1"], "accessor sorts the recorded generation in place")
M("C20-accessor-caches", "C20", TREE, "        return max(deme.best_individual for level in self._levels for deme in level if deme.best_individual)", "        self._best = max(deme.best_individual for level in self._levels for deme in level if deme.best_individual)\n        return self._best", ["R20.1"], "accessor stores state")
M("C20-summary-draws", "C20", TREE, '        lines.append(f"Number of demes: {len(self.all_demes)}")\n        if level_summary:', '        lines.append(f"Number of demes: {len(self.all_demes)}")\n        if np.random.rand() < 0.0:\n            lines.append("")\n        if level_summary:', ["R20.1"], "summary draws a random number")
M("C20-r5s-shuffles", "C20", R5S, "        if len(individuals) <= n:\n            return individuals\n", "        if len(individuals) <= n:\n            return individuals\n        individuals.sort()\n", ["R20.1"], "R5S selection sorts its argument in place")
M("C20-tree-best-leaf", "C20", TREE, "format_deme(self.root, self.best_individual.fitness)", "format_deme(self.root, self.best_leaf_individual.fitness)", ["R20.3"], "root line marked against the best leaf, not the global best")
M("C20-skip-new", "C20", PT, "        if child.metaepoch_count == 0:\n", "        if child.metaepoch_count <= 1:\n", ["R20.3"], "demes with one metaepoch are omitted too")
M("C20-no-recursion-best", "C20", PT, '''            prefix=prefix + (" " if is_last else "|") + "   ",
            best_fitness=best_fitness,
''', '''            prefix=prefix + (" " if is_last else "|") + "   ",
''', ["R20.3"], "grandchildren never get the marker")
T("C20-t-marker-split", "C20", PT, '    best_symbol = " *** " if best_fitness is not None and deme.best_individual.fitness == best_fitness else " "', '    is_best = best_fitness is not None and deme.best_individual.fitness == best_fitness\n    best_symbol = " *** " if is_best else " "', "marker condition through a local")
T("C20-t-best-sorted-copy", "C20", ABS, "        return max(self.current_population) if self.current_population else None", "        ranked = sorted(self.current_population)\n        return ranked[-1] if ranked else None", "sorted() copy instead of max")

# ----------------------------------------------------------------------------- C07
M("C07-id-from-children", "C07", TREE, "        id_suffix = len(self._levels[deme.level + 1])", "        id_suffix = len(deme.children)", ["R07.2"], "ids numbered per parent (duplicates across parents of one level)")
M("C07-wrong-level-list", "C07", TREE, "                self._levels[target_level].append(child)", "                self._levels[deme.level].append(child)", ["R07.1"], "child registered on its parent's level")
M("C07-not-added-to-parent", "C07", TREE, "                deme.add_child(child)\n", "", ["R07.1"], "parent does not list the child")
M("C07-add-child-conditional", "C07", TREE, "                deme.add_child(child)\n", "                if deme.level == 0:\n                    deme.add_child(child)\n", ["R07.1"], "only root children are listed by their parent")
M("C07-wrong-config", "C07", TREE, "                config = self.config.levels[target_level]", "                config = self.config.levels[min(target_level, 1)]", ["R07.1"], "third level built with the second level's config")
M("C07-started-plus-one", "C07", TREE, "                    metaepoch_count=self.metaepoch_count,\n                    sprout_seed=ind,", "                    metaepoch_count=self.metaepoch_count + 1,\n                    sprout_seed=ind,", ["R07.1"], "started_at in the future")
M("C07-no-parent", "C07", TREE, "                    parent_deme=deme,\n", "                    parent_deme=None if deme.level == 0 else deme,\n", ["R07.1"], "root children have no parent recorded")
M("C07-seed-clone", "C07", TREE, "                    sprout_seed=ind,\n", "                    sprout_seed=ind.clone(),\n", ["R07.1"], "seed is a clone (fitness reset), not the parent's individual")
M("C07-registry-swapped", "C07", DINIT, "    LHSLevelConfig: LHSDeme,\n    SobolLevelConfig: SobolDeme,", "    LHSLevelConfig: SobolDeme,\n    SobolLevelConfig: LHSDeme,", ["R07.3"], "LHS and Sobol engines swapped")
M("C07-init-level-shift", "C07", DINIT, "        level=target_level,\n", "        level=target_level + (1 if parent_deme is not None and parent_deme.level > 0 else 0),\n", ["R07.3"], "deep demes record the wrong level")
M("C07-seed-not-appended", "C07", DE, "            starting_pop.append(seed_ind)\n", "", ["R07.8"], "DE child does not contain its seed")
# (the seed is still contained: the well-formedness clause of C07 holds; what breaks is C12's constant population size)
M("C12-shade-full-sample", "C12", SH, "                self._pop_size - 1,\n", "                self._pop_size,\n", ["R12.2"], "SHADE child has pop_size + 1 individuals")
M("C07-ea-seed-perturbed", "C07", EA, "            seed_ind = Individual(x0, problem=self._problem)", "            seed_ind = Individual(x0 + 0.0 * self._sample_std_dev, problem=self._problem) if self._pop_size > 2 else Individual(starting_pop[0].genome, problem=self._problem)", ["R07.8"], "tiny populations duplicate a sample instead of the seed")
M("C07-best-ever", "C07", GEN, "individuals=[deme.best_current_individual]", "individuals=[deme.best_individual]", ["R07.7"], "BestPerDeme offers the historical best")
M("C07-nbc-all", "C07", GEN, '''class NBC_Generator(SproutCandidatesGenerator):
    def __init__(self, distance_factor: float, truncation_factor: float) -> None:
        self.distance_factor = distance_factor
        self.truncation_factor = truncation_factor
        super().__init__()

    def __call__(self, tree) -> dict[AbstractDeme, DemeCandidates]:
        candidates = {}
        for level in tree.levels[:-1]:
            for deme in level:
                if deme.is_active:
                    nbc = NearestBetterClustering(
                        deme.current_population,''', '''class NBC_Generator(SproutCandidatesGenerator):
    def __init__(self, distance_factor: float, truncation_factor: float) -> None:
        self.distance_factor = distance_factor
        self.truncation_factor = truncation_factor
        super().__init__()

    def __call__(self, tree) -> dict[AbstractDeme, DemeCandidates]:
        candidates = {}
        for level in tree.levels[:-1]:
            for deme in level:
                if deme.is_active:
                    nbc = NearestBetterClustering(
                        deme.all_individuals,''', ["R07.7"], "NBC candidates from the whole history")
M("C07-started-rewritten", "C07", LHS, "    def run_metaepoch(self, tree) -> None:\n        self.run()\n", "    def run_metaepoch(self, tree) -> None:\n        self._started_at = tree.metaepoch_count - self.metaepoch_count - 1\n        self.run()\n", ["R07.4"], "started_at rewritten after construction")
M("C07-gen-all-levels", "C07", GEN, '''            for level in tree.levels[:-1]
            for deme in level
            if deme.is_active''', '''            for level in tree.levels
            for deme in level
            if deme.is_active''', ["R07.6"], "leaf demes offered as parents")
M("C07-leaf-guard-removed", "C07", TREE, '''        if deme.level >= self.height - 1:
            raise ValueError("Only non-leaf levels are admissible")

''', "", ["R07.6"], "leaf parents no longer refused")
M("C07-root-id", "C07", TREE, '            new_id="root",\n', '            new_id="0",\n', ["R07.5"], "root not called 'root'")
M("C07-levels-pruned", "C07", TREE, '''        if len(self.leaves) > 0:
            self._logger.info(
                "Metaepoch finished",''', '''        for level in self._levels[1:]:
            if len(level) > 50:
                level.pop(0)
        if len(self.leaves) > 0:
            self._logger.info(
                "Metaepoch finished",''', ["R07.4"], "old demes dropped from their level")
T("C07-t-inline-level", "C07", TREE, '''                    target_level=target_level,
                    metaepoch_count=self.metaepoch_count,''', '''                    target_level=deme.level + 1,
                    metaepoch_count=self.metaepoch_count,''', "target level inlined in the call")
T("C07-t-seed-inline", "C07", EA, "            seed_ind = Individual(x0, problem=self._problem)\n            starting_pop.append(seed_ind)", "            starting_pop.append(Individual(x0, problem=self._problem))", "seed individual built inline")

# ----------------------------------------------------------------------------- C13
_LL_NOW = '''            level_candidates.sort(reverse=True)
            currently_active_level_below = len([deme for deme in tree.levels[level + 1] if deme.is_active])
            if currently_active_level_below + len(level_candidates) > self.limit:
                cutoff = self.limit - currently_active_level_below
                cutoff_candidate = level_candidates[cutoff]
                for deme in level_demes:
                    candidates[deme].individuals = [
                        ind for ind in candidates[deme].individuals if ind > cutoff_candidate
                    ]
'''
_LL_PINNED = '''            level_candidates.sort(key=lambda ind: ind.fitness)
            currently_active_level_below = len([deme for deme in tree.levels[level + 1] if deme.is_active])
            if currently_active_level_below + len(level_candidates) > self.limit:
                cutoff = self.limit - currently_active_level_below
                fitness_cutoff = level_candidates[cutoff].fitness
                for deme in level_demes:
                    candidates[deme].individuals = [
                        ind for ind in candidates[deme].individuals if ind.fitness < fitness_cutoff  # type: ignore
                    ]
'''
M("C13-pinned-levellimit", "C13", FIL, _LL_NOW, _LL_PINNED, ["R13.1"], "pinned defect: LevelLimit orders by raw fitness")
M("C13-pinned-cma", "C13", CMA, "        values = [sign * ind.fitness for ind in self.current_population]", "        values = [ind.fitness for ind in self.current_population]", ["R13.1"], "pinned defect (first tell): raw fitness told to CMA-ES")
M("C13-pinned-cma-loop", "C13", CMA, "            values = [sign * ind.fitness for ind in offspring]", "            values = [ind.fitness for ind in offspring]", ["R13.1"], "pinned defect (loop): raw fitness told to CMA-ES")
M("C13-pinned-local", "C13", LOC, '''        def fun(x):
            return self._sign * self._problem.evaluate(x)
''', '''        fun = self._problem.evaluate
''', ["R13.1", "R13.5"], "pinned defect: scipy minimises the raw objective")
M("C13-pinned-r5s", "C13", R5S, '''        # Individuals are ordered by the problem's own direction: best first.
        sorted_individuals = sorted(individuals, reverse=True)''', '''        minimize = not individuals[0].problem.maximize
        sorted_individuals = sorted(individuals, reverse=minimize)''', ["R13.3"], "pinned defect: direction applied twice in R5S")
T("C13-t-topk-swapped", "C13", POP, "topk_indices = np.argsort(self.fitnesses)[-k:] if self.problem.maximize else np.argsort(self.fitnesses)[:k]", "topk_indices = np.argsort(self.fitnesses)[:k] if self.problem.maximize else np.argsort(self.fitnesses)[-k:]", "topk keeps the worst: wrong but symmetric under f -> -f, so C13 holds")
M("C12-topk-swapped", "C12", POP, "topk_indices = np.argsort(self.fitnesses)[-k:] if self.problem.maximize else np.argsort(self.fitnesses)[:k]", "topk_indices = np.argsort(self.fitnesses)[:k] if self.problem.maximize else np.argsort(self.fitnesses)[-k:]", ["R12.3"], "topk keeps the worst")
T("C13-t-tournament-swapped", "C13", SEA, '''            np.argmax(tournament_fitnesses, axis=1)
            if population_copy.problem.maximize
            else np.argmin(tournament_fitnesses, axis=1)''', '''            np.argmin(tournament_fitnesses, axis=1)
            if population_copy.problem.maximize
            else np.argmax(tournament_fitnesses, axis=1)''', "tournament picks the loser: wrong but symmetric under f -> -f, so C13 holds")
M("C13-tournament-one-armed", "C13", SEA, '''            np.argmax(tournament_fitnesses, axis=1)
            if population_copy.problem.maximize
            else np.argmin(tournament_fitnesses, axis=1)''', '''            np.argmin(tournament_fitnesses, axis=1)''', ["R13.1"], "tournament ignores the direction")
T("C13-t-worse-than-swapped", "C13", PROB, '''        if self.maximize:
            return first_fitness < second_fitness
        else:
            return first_fitness > second_fitness''', '''        if self.maximize:
            return first_fitness > second_fitness
        else:
            return first_fitness < second_fitness''', "worse_than reversed: wrong but symmetric under f -> -f, so C13 holds")
M("C04-worse-than-swapped", "C04", PROB, '''        if self.maximize:
            return first_fitness < second_fitness
        else:
            return first_fitness > second_fitness''', '''        if self.maximize:
            return first_fitness > second_fitness
        else:
            return first_fitness < second_fitness''', ["R04.3"], "worse_than reversed")
M("C13-worse-than-nonstrict", "C13", PROB, '''        if self.maximize:
            return first_fitness < second_fitness
        else:
            return first_fitness > second_fitness''', '''        if self.maximize:
            return first_fitness <= second_fitness
        else:
            return first_fitness > second_fitness''', ["R13.2"], "worse_than strict for one direction only")
M("C13-pbest-no-negation", "C13", DEPY, "            else np.argsort(-1 * population.fitnesses)", "            else np.argsort(population.fitnesses)", ["R13.2"], "p-best of SHADE ignores maximisation")
M("C13-de-mask-same", "C13", DEPY, '''            (trial_population.fitnesses >= parent_population.fitnesses)
            if parent_population.problem.maximize
            else (trial_population.fitnesses <= parent_population.fitnesses)
        )
        return (''', '''            (trial_population.fitnesses <= parent_population.fitnesses)
            if parent_population.problem.maximize
            else (trial_population.fitnesses <= parent_population.fitnesses)
        )
        return (''', ["R13.2"], "DE replacement mask identical for both directions")
T("C13-t-cma-sign-swapped", "C13", CMA, "        sign = -1.0 if self._problem.maximize else 1.0", "        sign = 1.0 if self._problem.maximize else -1.0", "CMA sign adapter reversed: wrong but symmetric under f -> -f, so C13 holds")
M("C13-local-no-unadapt", "C13", LOC, "        ind.fitness = self._sign * intermediate_result.fun", "        ind.fitness = intermediate_result.fun", ["R13.6"], "recorded local-search iterates keep the negated value")
T("C13-t-best-min", "C13", TREE, "        return max(deme.best_individual for deme in self.leaves)", "        return min(deme.best_individual for deme in self.leaves)", "best leaf individual = worst: wrong but symmetric under f -> -f, so C13 holds")
M("C04-best-min", "C04", TREE, "        return max(deme.best_individual for deme in self.leaves)", "        return min(deme.best_individual for deme in self.leaves)", ["R04.3"], "best leaf individual = worst")
T("C13-t-demelimit-ascending", "C13", FIL, "candidates[deme].individuals = sorted(candidates[deme].individuals, reverse=True)[: self.limit]", "candidates[deme].individuals = sorted(candidates[deme].individuals)[: self.limit]", "DemeLimit keeps the worst: wrong but symmetric under f -> -f, so C13 holds")
M("C10-demelimit-ascending", "C10", FIL, "candidates[deme].individuals = sorted(candidates[deme].individuals, reverse=True)[: self.limit]", "candidates[deme].individuals = sorted(candidates[deme].individuals)[: self.limit]", ["R10.3"], "DemeLimit keeps the worst")
M("C13-nbc-raw-sort", "C13", NBC, "        sorted_individuals = sorted(evaluated_individuals, reverse=True)", "        sorted_individuals = sorted(evaluated_individuals, key=lambda ind: ind.fitness)", ["R13.1"], "NBC orders by raw fitness")
M("C13-lt-swapped-args", "C13", IND, "        return self.problem.worse_than(self.fitness, other.fitness)", "        return self.problem.worse_than(other.fitness, self.fitness)", ["R13.4"], "Individual order reversed")
M("C13-merge-cond-no-sign", "C13", "pyhms/cluster/merge_conditions.py", "            return (-1 if self.problem.maximize else 1) * self.problem.evaluate(x)", "            return self.problem.evaluate(x)", ["R13.5", "R13.1"], "merge condition's local search ignores the direction")
M("C13-cutoff-sentinel-fixed", "C13", PROB, "            return -np.inf if self._inner.maximize else np.inf", "            return np.inf", ["R16.3", "R13.1", "R13.2"], "placeholder")
CORPUS.pop()
T("C13-t-topk-ifstmt", "C13", POP, "        topk_indices = np.argsort(self.fitnesses)[-k:] if self.problem.maximize else np.argsort(self.fitnesses)[:k]\n", "        if self.problem.maximize:\n            topk_indices = np.argsort(self.fitnesses)[-k:]\n        else:\n            topk_indices = np.argsort(self.fitnesses)[:k]\n", "if-statement form of the topk switch")
T("C13-t-topk-negated", "C13", POP, "        topk_indices = np.argsort(self.fitnesses)[-k:] if self.problem.maximize else np.argsort(self.fitnesses)[:k]\n", "        topk_indices = np.argsort(self.fitnesses)[:k] if not self.problem.maximize else np.argsort(self.fitnesses)[-k:]\n", "negated test, arms exchanged")
T("C13-t-cma-sign-local", "C13", CMA, "        sign = -1.0 if self._problem.maximize else 1.0", "        sign = 1.0 if not self._problem.maximize else -1.0", "sign adapter with negated test")
T("C13-t-best-sorted", "C13", TREE, "        return max(deme.best_individual for deme in self.leaves)", "        return sorted((deme.best_individual for deme in self.leaves), reverse=True)[0]", "best via best-first sort")

# ----------------------------------------------------------------------------- C08
M("C08-pivot-plus-one", "C08", FIL, "                cutoff = self.limit - currently_active_level_below\n", "                cutoff = self.limit - currently_active_level_below + 1\n", ["C08.O4"], "pivot index shifted: one extra deme per level")
M("C08-nonstrict-keep", "C08", FIL, "ind for ind in candidates[deme].individuals if ind > cutoff_candidate", "ind for ind in candidates[deme].individuals if ind >= cutoff_candidate", ["C08.O4"], "keeps the pivot (and ties)")
M("C08-count-all-demes", "C08", FIL, "currently_active_level_below = len([deme for deme in tree.levels[level + 1] if deme.is_active])", "currently_active_level_below = len([deme for deme in tree.levels[level + 1] if deme.is_active and deme.metaepoch_count > 0])", ["C08.O4"], "freshly sprouted demes not counted as active")
M("C08-guard-ge", "C08", FIL, "if currently_active_level_below + len(level_candidates) > self.limit:", "if currently_active_level_below + len(level_candidates) > self.limit + 1:", ["C08.O4"], "guard lets limit + 1 through")
M("C08-level-skipped", "C08", FIL, "for level in range(len(tree.levels[:-1])):", "for level in range(len(tree.levels[:-2])):", ["C08.O5"], "the last sprouting level is not limited")
M("C08-levellimit-not-last", "C08", MECH, "        [LevelLimit(level_limit)],\n    )", "        [LevelLimit(level_limit), SkipSameSprout()],\n    )", ["C08.O3"], "LevelLimit no longer last in the NBC factory")
M("C08-tree-filters-first", "C08", MECH, '''        candidates = self.apply_deme_filters(candidates, tree)
        candidates = self.apply_tree_filters(candidates, tree)''', '''        candidates = self.apply_tree_filters(candidates, tree)
        candidates = self.apply_deme_filters(candidates, tree)''', ["C08.O3"], "tree-level filters applied before deme-level ones")
M("C08-two-children", "C08", TREE, "            for ind in deme_candidates.individuals:\n                new_id = self._next_child_id(deme)", "            for ind in deme_candidates.individuals + deme_candidates.individuals[:1]:\n                new_id = self._next_child_id(deme)", ["C08.O6"], "first candidate sprouted twice")
M("C08-sort-mismatch", "C08", FIL, "            level_candidates.sort(reverse=True)", "            level_candidates.sort()", ["C08.O4"], "ascending sort with `>` keep-predicate")
M("C08-filter-skips-one-parent", "C08", FIL, "                for deme in level_demes:\n                    candidates[deme].individuals = [", "                for deme in level_demes[1:]:\n                    candidates[deme].individuals = [", ["C08.O4"], "first parent's candidates escape the cut")
T("C08-t-sum-active", "C08", FIL, "currently_active_level_below = len([deme for deme in tree.levels[level + 1] if deme.is_active])", "currently_active_level_below = sum(1 for deme in tree.levels[level + 1] if deme.is_active)", "active count as a sum")
T("C08-t-inline-cutoff", "C08", FIL, '''                cutoff = self.limit - currently_active_level_below
                cutoff_candidate = level_candidates[cutoff]''', '''                cutoff_candidate = level_candidates[self.limit - currently_active_level_below]''', "pivot index inlined")

# ----------------------------------------------------------------------------- C10
M("C10-pinned-levellimit", "C10", FIL, _LL_NOW, _LL_PINNED, ["R10.4"], "pinned defect: LevelLimit keeps the worst on maximisation")
M("C10-demelimit-worst", "C10", FIL, "candidates[deme].individuals = sorted(candidates[deme].individuals, reverse=True)[: self.limit]", "candidates[deme].individuals = sorted(candidates[deme].individuals)[: self.limit]", ["R10.3"], "DemeLimit keeps the worst")
M("C10-demelimit-plus-one", "C10", FIL, "candidates[deme].individuals = sorted(candidates[deme].individuals, reverse=True)[: self.limit]", "candidates[deme].individuals = sorted(candidates[deme].individuals, reverse=True)[: self.limit + 1]", ["R10.3"], "DemeLimit keeps limit + 1")
M("C10-demelimit-raw-key", "C10", FIL, "candidates[deme].individuals = sorted(candidates[deme].individuals, reverse=True)[: self.limit]", "candidates[deme].individuals = sorted(candidates[deme].individuals, key=lambda ind: ind.fitness)[: self.limit]", ["R10.3", "R10.4"], "DemeLimit sorts by raw fitness")
M("C10-gen-inactive", "C10", GEN, '''            for level in tree.levels[:-1]
            for deme in level
            if deme.is_active
        }''', '''            for level in tree.levels[:-1]
            for deme in level
        }''', ["R10.1"], "BestPerDeme offers candidates of stopped demes")
# property-holding variant (candidates still come only from active demes): must stay silent
T("C10-t-gen-skips-young", "C10", GEN, '''        candidates = {}
        for level in tree.levels[:-1]:
            for deme in level:
                if deme.is_active:''', '''        candidates = {}
        for level in tree.levels[:-1]:
            for deme in level:
                if deme.is_active and deme.metaepoch_count > 1:''', "NBC generator ignores young demes: still only active demes offer candidates")
M("C10-filter-adds", "C10", FIL, '''            candidates[deme].individuals = not_equal_candidate_sprouts
        return candidates''', '''            candidates[deme].individuals = not_equal_candidate_sprouts or [deme.best_individual]
        return candidates''', ["R10.2"], "a filter adds a fallback candidate")
M("C10-skipsame-no-negation", "C10", FIL, "if not np.any(np.all(np.isclose(children_sprout_genomes, ind.genome), axis=1))", "if np.any(np.all(np.isclose(children_sprout_genomes, ind.genome), axis=1))", ["R10.6"], "only repeated seeds pass")
M("C10-skipsame-any-all", "C10", FIL, "if not np.any(np.all(np.isclose(children_sprout_genomes, ind.genome), axis=1))", "if not np.all(np.any(np.isclose(children_sprout_genomes, ind.genome), axis=1))", ["R10.6"], "quantifiers exchanged")
M("C10-skipsame-own-children", "C10", FIL, "[child._sprout_seed.genome for level_deme in tree.levels[deme.level] for child in level_deme.children]", "[child._sprout_seed.genome for level_deme in tree.levels[deme.level] for child in level_deme.children if child.is_active]", ["R10.6"], "seeds of stopped demes can be re-sprouted")
M("C18-empty-kept", "C18", MECH, "        return {k: v for k, v in candidates.items() if candidates[k].individuals}", "        return dict(candidates)", ["R18.7"], "parents without candidates are returned too: they count as sprouted and never hibernate")
T("C10-t-empty-kept", "C10", MECH, "        return {k: v for k, v in candidates.items() if candidates[k].individuals}", "        return dict(candidates)", "parents without candidates are returned too (C10 says nothing about them)")
T("C10-t-demelimit-noguard", "C10", FIL, '''            if len(candidates[deme].individuals) > self.limit:
                candidates[deme].individuals = sorted(candidates[deme].individuals, reverse=True)[: self.limit]''', '''            candidates[deme].individuals = sorted(candidates[deme].individuals, reverse=True)[: self.limit]''', "unconditional truncation")
T("C10-t-farenough-alias", "C10", FIL, '''            child_seeds = candidates[deme].individuals
            for sibling in child_siblings:
                child_seeds = [ind for ind in child_seeds if self._is_far_enough(ind, sibling.centroid)]
            candidates[deme].individuals = child_seeds''', '''            remaining = candidates[deme].individuals
            for sibling in child_siblings:
                remaining = [ind for ind in remaining if self._is_far_enough(ind, sibling.centroid)]
            candidates[deme].individuals = remaining''', "renamed alias")

# ----------------------------------------------------------------------------- C14
M("C14-no-py-seed", "C14", TREE, "            random.seed(self._random_seed)\n", "", ["R14.3"], "Python's global stream not seeded (NaN tie-breaks)")
M("C14-seed-after-root", "C14", TREE, '''            random.seed(self._random_seed)
            np.random.seed(self._random_seed)
        else:
            self._random_seed = None

        self._levels: list[list[AbstractDeme]] = [[] for _ in range(nlevels)]
        root_deme = init_from_config(
            config=config.levels[0],
            new_id="root",
            target_level=0,
            metaepoch_count=0,
            sprout_seed=None,
            logger=self._logger,
            random_seed=self._random_seed,
            config_class_to_deme_class=self.config.config_class_to_deme_class,
        )
''', '''        else:
            self._random_seed = None

        self._levels: list[list[AbstractDeme]] = [[] for _ in range(nlevels)]
        root_deme = init_from_config(
            config=config.levels[0],
            new_id="root",
            target_level=0,
            metaepoch_count=0,
            sprout_seed=None,
            logger=self._logger,
            random_seed=self._random_seed,
            config_class_to_deme_class=self.config.config_class_to_deme_class,
        )
        if self._random_seed is not None:
            random.seed(self._random_seed)
            np.random.seed(self._random_seed)
''', ["R14.3"], "global streams seeded after the root population was drawn")
M("C14-sobol-unseeded", "C14", SOB, "self.sampler = Sobol(d=len(config.bounds), scramble=True, seed=deme_init_args.random_seed)", "self.sampler = Sobol(d=len(config.bounds), scramble=True)", ["R14.2"], "Sobol scrambling unseeded")
M("C14-lhs-clock", "C14", LHS, "self.sampler = LatinHypercube(d=len(config.bounds), seed=deme_init_args.random_seed)", "self.sampler = LatinHypercube(d=len(config.bounds), seed=(deme_init_args.random_seed or 0) + id(self) % 7)", ["R14.2", "R14.5"], "LHS seed mixed with object identity")
M("C14-cma-no-seed", "C14", CMA, "            opts[\"seed\"] = deme_init_args.random_seed + self._started_at\n", "", ["R14.2"], "CMA-ES never receives a seed")
M("C14-cma-no-randn", "C14", CMA, "            opts[\"randn\"] = np.random.randn\n", "", ["R14.2"], "CMA-ES samples from its own stream")
M("C14-cma-third-ctor", "C14", CMA, "            self._cma_es = CMAEvolutionStrategy(x0, sigma0, inopts=opts)\n        elif config.sigma0:", "            self._cma_es = CMAEvolutionStrategy(x0, sigma0, inopts={\"bounds\": [lb, ub], \"verbose\": -9, \"CMA_stds\": opts[\"CMA_stds\"]})\n        elif config.sigma0:", ["R14.2"], "set_stds branch builds CMA-ES without the seeded options")
M("C14-operator-own-rng", "C14", SEA, "        noise = np.random.normal(0, self.stds, size=new_population.genomes.shape)", "        noise = np.random.default_rng().normal(0, self.stds, size=new_population.genomes.shape)", ["R14.1"], "Gaussian mutation draws from a fresh unseeded generator")
M("C14-seed-not-forwarded", "C14", TREE, "                    random_seed=self._random_seed,\n                    parent_deme=deme,", "                    random_seed=None,\n                    parent_deme=deme,", ["R14.4"], "sprouted demes get no seed (unseeded CMA / Sobol / LHS children)")
M("C14-set-iteration", "C14", GEN, '''        candidates = {}
        for level in tree.levels[:-1]:
            for deme in level:
                if deme.is_active:
                    nbc = NearestBetterClustering(
                        deme.current_population,
                        self.distance_factor,
                        self.truncation_factor,
                    )
                    deme_candidate_inds = nbc.cluster()
                    candidates[deme] = DemeCandidates(
                        individuals=deme_candidate_inds,
                        features=DemeFeatures(nbc_mean_distance=np.mean(nbc.distances)),
                    )
        return candidates  # type: ignore[return-value]


class NBCGeneratorWithLocalMethod''', '''        candidates = {}
        for level in tree.levels[:-1]:
            for deme in set(level):
                if deme.is_active:
                    nbc = NearestBetterClustering(
                        deme.current_population,
                        self.distance_factor,
                        self.truncation_factor,
                    )
                    deme_candidate_inds = nbc.cluster()
                    candidates[deme] = DemeCandidates(
                        individuals=deme_candidate_inds,
                        features=DemeFeatures(nbc_mean_distance=np.mean(nbc.distances)),
                    )
        return candidates  # type: ignore[return-value]


class NBCGeneratorWithLocalMethod''', ["R14.6"], "parents visited in hash order (child ids depend on object addresses)")
M("C14-module-rng", "C14", DEPY, "import numpy as np\nimport scipy\n", "import numpy as np\nimport scipy\n\n_RNG = np.random.default_rng()\n", ["R14.7"], "module-level generator created at import")
M("C14-time-seed", "C14", TREE, "            np.random.seed(self._random_seed)\n", "            np.random.seed(self._random_seed)\n        else:\n            import time\n\n            np.random.seed(int(time.time()) % 2**32)\n", ["R14.5"], "placeholder")
CORPUS.pop()
M("C14-uuid-tiebreak", "C14", FIL, "candidates[deme].individuals = sorted(candidates[deme].individuals, reverse=True)[: self.limit]", "candidates[deme].individuals = sorted(sorted(candidates[deme].individuals, key=lambda ind: ind.uuid.int), reverse=True)[: self.limit]", ["R14.5"], "ties between candidates broken by uuid")
M("C14-reseed-in-deme", "C14", CMA, "        self.generations = config.generations\n", "        self.generations = config.generations\n        np.random.seed()\n", ["R14.3"], "a deme reseeds numpy's global stream from OS entropy")
T("C14-t-seed-local", "C14", TREE, '''            self._random_seed = config.options["random_seed"]
            import random

            import numpy as np

            random.seed(self._random_seed)
            np.random.seed(self._random_seed)''', '''            self._random_seed = config.options["random_seed"]
            import random

            import numpy as np

            np.random.seed(self._random_seed)
            random.seed(self._random_seed)''', "seeding order exchanged")
T("C14-t-lhs-seed-local", "C14", LHS, "        self.sampler = LatinHypercube(d=len(config.bounds), seed=deme_init_args.random_seed)", "        sampler_seed = deme_init_args.random_seed\n        self.sampler = LatinHypercube(d=len(config.bounds), seed=sampler_seed)", "seed through a local")

# ----------------------------------------------------------------------------- C02
M("C02-pinned-callback", "C02", LOC, "        ind = Individual(np.copy(intermediate_result.x), problem=self._problem)", "        ind = Individual(intermediate_result.x, problem=self._problem)", ["R02.7"], "pinned defect: scipy's work buffer stored uncopied")
M("C02-crossover-any", "C02", DEPY, '''        new_genomes = np.where(chosen <= probability, mutated_population.genomes, population.genomes)
        new_fitness = np.where(
            np.all(new_genomes == population.genomes, axis=1),''', '''        new_genomes = np.where(chosen <= probability, mutated_population.genomes, population.genomes)
        new_fitness = np.where(
            np.any(new_genomes == population.genomes, axis=1),''', ["R02.1"], "fitness kept when any coordinate is unchanged")
M("C02-crossover-isclose", "C02", DEPY, '''        new_genomes = np.where(chosen <= probability, mutated_population.genomes, population.genomes)
        new_fitness = np.where(
            np.all(new_genomes == population.genomes, axis=1),''', '''        new_genomes = np.where(chosen <= probability, mutated_population.genomes, population.genomes)
        new_fitness = np.where(
            np.all(np.isclose(new_genomes, population.genomes), axis=1),''', ["R02.1"], "approximately equal trial vectors keep the parent's fitness")
M("C02-tournament-index", "C02", SEA, "        return Population(new_genomes, population_copy.fitnesses[winners], population_copy.problem)", "        return Population(new_genomes, population_copy.fitnesses[selected_indices], population_copy.problem)", ["R02.1"], "winners' genomes paired with other rows' fitness")
M("C02-merge-order", "C02", POP, "        new_fitnesses = np.concatenate((self.fitnesses, other.fitnesses))", "        new_fitnesses = np.concatenate((other.fitnesses, self.fitnesses))", ["R02.1"], "merge concatenates fitness in the other order")
M("C02-nan-reset-dropped", "C02", POP, "        self.genomes[change_mask] = new_genome[change_mask]\n        self.fitnesses[change_mask] = np.nan\n", "        self.genomes[change_mask] = new_genome[change_mask]\n", ["R02.2"], "changed rows keep their old fitness")
M("C02-change-mask-all", "C02", POP, "        change_mask = np.any(new_genome != self.genomes, axis=1)", "        change_mask = np.all(new_genome != self.genomes, axis=1)", ["R02.2"], "rows changed in only some coordinates are not invalidated")
M("C02-evaluate-wrong-rows", "C02", POP, "        fitness_values = [self.problem.evaluate(genome, *args, **kwargs) for genome in self.genomes[nan_mask]]", "        fitness_values = [self.problem.evaluate(genome, *args, **kwargs) for genome in self.genomes[: int(nan_mask.sum())]]", ["R02.2"], "NaN rows receive the objective values of other rows")
M("C02-operator-mutates-arg", "C02", SEA, "        population_copy = population.copy()\n        new_genomes = np.random.uniform(", "        population_copy = population\n        new_genomes = np.random.uniform(", ["R02.3"], "UniformMutation mutates the population it was given")
M("C02-pipeline-no-eval", "C02", SEA, '''                TournamentSelection(),
                ArithmeticCrossover(probability=p_crossover, evaluate_fitness=False),
                UniformMutation(bounds=problem.bounds, probability=p_mutation),''', '''                TournamentSelection(),
                UniformMutation(bounds=problem.bounds, probability=p_mutation),
                ArithmeticCrossover(probability=p_crossover, evaluate_fitness=False),''', ["R02.4"], "pipeline ends with the non-evaluating crossover")
M("C02-de-no-evaluate", "C02", DEPY, "        trial_population = self._crossover(parent_population, trial_population, self._crossover_probability)\n        trial_population.evaluate()\n", "        trial_population = self._crossover(parent_population, trial_population, self._crossover_probability)\n", ["R02.4"], "DE compares NaN fitness")
M("C02-filter-writes-fitness", "C02", FIL, '''        for deme in candidates.keys():
            if len(candidates[deme].individuals) > self.limit:''', '''        for deme in candidates.keys():
            for ind in candidates[deme].individuals:
                ind.fitness = round(ind.fitness, 12)
            if len(candidates[deme].individuals) > self.limit:''', ["R02.5"], "a filter rounds the fitness of recorded individuals")
M("C02-genome-inplace", "C02", EA, "            seed_ind = Individual(x0, problem=self._problem)\n", "            x0 += 0.0\n            seed_ind = Individual(x0, problem=self._problem)\n            seed_ind.genome[0] = seed_ind.genome[0]\n", ["R02.5"], "genome item store")
M("C02-history-element-replaced", "C02", CMA, '''        self._history.append(metaepoch_generations)

        if self._lsc(self) or self._cma_es.stop():''', '''        self._history.append(metaepoch_generations)
        metaepoch_generations.append(list(self.history[0]))

        if self._lsc(self) or self._cma_es.stop():''', ["R02.8"], "recorded metaepoch list extended after recording")
M("C02-sort-current", "C02", GEN, "individuals=[deme.best_current_individual]", "individuals=[deme.current_population.sort() or deme.best_current_individual]", ["R02.8"], "generator sorts the recorded generation in place")
M("C02-evaluate-unguarded", "C02", IND, "        if self.fitness is None or np.isnan(self.fitness):\n            self.fitness = self.problem.evaluate(self.genome)", "        if self.fitness is None:\n            self.fitness = self.problem.evaluate(self.genome)", ["R02.6"], "NaN individuals are never evaluated")
M("C02-local-fitness-negated", "C02", LOC, "        ind.fitness = self._sign * intermediate_result.fun", "        ind.fitness = intermediate_result.fun", ["R02.9"], "recorded iterates keep the sign-adapted value")
T("C02-t-copy-method", "C02", POP, "        new_genomes = np.copy(self.genomes)\n        new_fitnesses = np.copy(self.fitnesses)", "        new_genomes = self.genomes.copy()\n        new_fitnesses = self.fitnesses.copy()", "ndarray.copy() instead of np.copy")
T("C02-t-tournament-local", "C02", SEA, "        return Population(new_genomes, population_copy.fitnesses[winners], population_copy.problem)", "        new_fitnesses = population_copy.fitnesses[winners]\n        return Population(new_genomes, new_fitnesses, population_copy.problem)", "fitness through a local")
T("C02-t-callback-array", "C02", LOC, "        ind = Individual(np.copy(intermediate_result.x), problem=self._problem)", "        ind = Individual(np.array(intermediate_result.x), problem=self._problem)", "np.array copy")

# ----------------------------------------------------------------------------- C01
M("C01-gauss-no-repair", "C01", SEA, '        new_genomes = apply_bounds(new_genomes, population.problem.bounds, method="toroidal")\n', "", ["R01.1"], "Gaussian mutation without repair")
M("C01-gauss-repair-conditional", "C01", SEA, '        new_genomes = apply_bounds(new_genomes, population.problem.bounds, method="toroidal")\n', '        if self.probability < 1.0:\n            new_genomes = apply_bounds(new_genomes, population.problem.bounds, method="toroidal")\n', ["R01.1"], "repair skipped when every gene is mutated")
M("C01-binary-no-repair", "C01", DEPY, '''        donor = randoms[:, 0] + self.f * (randoms[:, 1] - randoms[:, 2])
        new_genomes = apply_bounds(donor, population.problem.bounds, "reflect")''', '''        donor = randoms[:, 0] + self.f * (randoms[:, 1] - randoms[:, 2])
        new_genomes = donor''', ["R01.1"], "DE donors not repaired")
M("C01-pbest-foreign-bounds", "C01", DEPY, '        new_genomes = apply_bounds(mutated_genomes, population.problem.bounds, "reflect")', '        new_genomes = apply_bounds(mutated_genomes, np.array([[-1.0, 1.0]] * population.genomes.shape[1]), "reflect")', ["R01.1"], "SHADE donors repaired into a fixed unit box")
M("C01-uniform-widened", "C01", SEA, '''        new_genomes = np.random.uniform(
            self.lower_bounds,
            self.upper_bounds,''', '''        new_genomes = np.random.uniform(
            self.lower_bounds,
            self.upper_bounds * 1.05,''', ["R01.1"], "uniform mutation range widened by 5%")
M("C01-uniform-swapped-cols", "C01", SEA, '''class UniformMutation(VariationalOperator):
    def __init__(self, bounds: np.ndarray, probability: float) -> None:
        self.lower_bounds = bounds[:, 0]
        self.upper_bounds = bounds[:, 1]''', '''class UniformMutation(VariationalOperator):
    def __init__(self, bounds: np.ndarray, probability: float) -> None:
        self.lower_bounds = bounds[:, 0]
        self.upper_bounds = bounds[:, 0] + 2 * (bounds[:, 1] - bounds[:, 0])''', ["R01.1"], "upper sampling limit beyond the box")
M("C01-crossover-extrapolates", "C01", SEA, "                alpha = np.random.rand()\n", "                alpha = np.random.rand() * 1.5 - 0.25\n", ["R01.1"], "arithmetic crossover weight outside [0, 1]")
M("C01-crossover-post-jitter", "C01", DEPY, "        new_genomes = np.where(chosen <= probability, mutated_population.genomes, population.genomes)\n", "        new_genomes = np.where(chosen <= probability, mutated_population.genomes, population.genomes)\n        new_genomes = new_genomes + 1e-12 * (chosen - 0.5)\n", ["R01.1"], "tie-breaking jitter added after the repair")
M("C01-inbounds-or", "C01", INIT, "            return np.all(x >= bounds[:, 0]) and np.all(x <= bounds[:, 1])", "            return np.all(x >= bounds[:, 0]) or np.all(x <= bounds[:, 1])", ["R01.3"], "in_bounds with `or`")
M("C01-inbounds-one-face", "C01", INIT, "            return np.all(x >= bounds[:, 0]) and np.all(x <= bounds[:, 1])", "            return np.all(x >= bounds[:, 0])", ["R01.3"], "in_bounds checks the lower face only")
M("C01-inbounds-any", "C01", INIT, "            return np.all(x >= bounds[:, 0]) and np.all(x <= bounds[:, 1])", "            return np.all(x >= bounds[:, 0]) and np.any(x <= bounds[:, 1])", ["R01.3"], "upper face checked for some coordinate only")
M("C01-rejection-capped", "C01", INIT, '''        x = sample()
        while not in_bounds(x):
            x = sample()

        return x''', '''        x = sample()
        tries = 0
        while not in_bounds(x):
            x = sample()
            tries += 1
            if tries > 1000:
                break

        return x''', ["R01.3"], "rejection sampling gives up and returns an outside point")
M("C01-normal-unbounded", "C01", SH, "                initialize=sample_normal(x0, self._sample_std_dev, bounds=self._bounds),", "                initialize=sample_normal(x0, self._sample_std_dev),", ["R01.2"], "SHADE children sampled without bounds")
M("C01-cma-no-bounds", "C01", CMA, '        opts = {"bounds": [lb, ub], "verbose": -9}', '        opts = {"verbose": -9}', ["R01.2"], "CMA-ES without bounds")
M("C01-cma-bounds-swapped", "C01", CMA, '        opts = {"bounds": [lb, ub], "verbose": -9}', '        opts = {"bounds": [ub, lb], "verbose": -9}', ["R01.2"], "CMA-ES bounds [upper, lower]")
M("C01-scipy-no-bounds", "C01", LOC, "            bounds=self._bounds,\n", "", ["R01.2"], "local search without bounds")
M("C01-lhs-scaling", "C01", LHS, "        genomes = self.lower_bounds + sample * (self.upper_bounds - self.lower_bounds)", "        genomes = self.lower_bounds + sample * self.upper_bounds", ["R01.2"], "LHS sample scaled by upper instead of the range")
M("C01-sobol-cols", "C01", SOB, "        self.upper_bounds = config.bounds[:, 1]", "        self.upper_bounds = config.bounds[:, 1] + 1.0", ["R01.2"], "Sobol upper limit shifted")
M("C01-unhandled-method", "C01", DEPY, '        new_genomes = apply_bounds(donor, population.problem.bounds, "reflect")\n        new_fitness = np.where(\n            np.all(new_genomes == population.genomes, axis=1),\n            population.fitnesses,\n            np.nan,\n        )\n        return Population(new_genomes, new_fitness, population.problem)\n\n\nclass BinaryMutationWithDither', '        new_genomes = apply_bounds(donor, population.problem.bounds, "mirror")\n        new_fitness = np.where(\n            np.all(new_genomes == population.genomes, axis=1),\n            population.fitnesses,\n            np.nan,\n        )\n        return Population(new_genomes, new_fitness, population.problem)\n\n\nclass BinaryMutationWithDither', ["R01.5", "R01.1"], "repair method name not handled")
M("C01-else-returns", "C01", COMMON, '''    else:
        raise ValueError(f"Unknown method: {method}")''', '''    else:
        return genomes''', ["R01.5"], "unknown repair method returns genomes unrepaired")
M("C01-deme-bounds-widened", "C01", ABS, "        self._bounds: np.ndarray = deme_init_args.config.bounds", "        self._bounds: np.ndarray = deme_init_args.config.bounds * 1.0 + np.array([-1e-9, 1e-9])", ["R01.4"], "deme bounds padded")
T("C01-t-gauss-clip", "C01", SEA, '        new_genomes = apply_bounds(new_genomes, population.problem.bounds, method="toroidal")', '        new_genomes = apply_bounds(new_genomes, population.problem.bounds, method="clip")', "another handled repair method")
T("C01-t-gauss-two-steps", "C01", SEA, '''        new_genomes = new_population.genomes + binary_mask * noise
        # By default we use toroidal method, because it works the best for BBOB.
        new_genomes = apply_bounds(new_genomes, population.problem.bounds, method="toroidal")''', '''        raw_genomes = new_population.genomes + binary_mask * noise
        # By default we use toroidal method, because it works the best for BBOB.
        new_genomes = apply_bounds(raw_genomes, population.problem.bounds, method="toroidal")''', "unrepaired array under its own name")
T("C01-t-crossover-beta", "C01", SEA, '''                alpha = np.random.rand()
                new_genomes[i] = alpha * genomes[i] + (1 - alpha) * genomes[i + 1]
                new_genomes[i + 1] = (1 - alpha) * genomes[i] + alpha * genomes[i + 1]''', '''                weight = np.random.rand()
                new_genomes[i] = weight * genomes[i] + (1 - weight) * genomes[i + 1]
                new_genomes[i + 1] = genomes[i] * (1 - weight) + genomes[i + 1] * weight''', "renamed weight, operands commuted")

# ----------------------------------------------------------------------------- C04
M("C04-deme-best-current", "C04", ABS, "        return max(self.all_individuals) if self.all_individuals else None", "        return max(self.current_population) if self.current_population else None", ["R04.1"], "deme best over the current population only")
M("C04-tree-best-leaves", "C04", TREE, "        return max(deme.best_individual for level in self._levels for deme in level if deme.best_individual)", "        return max(deme.best_individual for deme in self.leaves if deme.best_individual)", ["R04.1"], "tree best over leaves only")
M("C04-tree-best-active", "C04", TREE, "        return max(deme.best_individual for level in self._levels for deme in level if deme.best_individual)", "        return max(deme.best_individual for level in self._levels for deme in level if deme.best_individual and deme.is_active)", ["R04.1"], "stopped demes forgotten")
M("C04-all-individuals-last-metaepochs", "C04", ABS, "        return [ind for pop in self.history for ind in pop]", "        return [ind for pop in self.history[-50:] for ind in pop]", ["R04.1"], "only the last 50 generations are searched")
M("C04-cached-best", "C04", ABS, "        return max(self.all_individuals) if self.all_individuals else None", "        if not self.all_individuals:\n            return None\n        self._best_cache = max(self.current_population + ([self._best_cache] if getattr(self, '_best_cache', None) else []))\n        return self._best_cache", ["R04.1"], "incremental best cache")
M("C04-fun-from-leaf", "C04", HMS, "        fun=hms_tree.best_individual.fitness,", "        fun=hms_tree.best_leaf_individual.fitness,", ["R04.4"], "fun from the best leaf, x from the global best")
T("C04-t-elites-from-offspring", "C04", SEA, "        top_k_parent_population = parent_population.topk(self.k_elites)", "        top_k_parent_population = offspring_population.topk(self.k_elites)", "elites taken from the offspring: the best evaluated offspring still survives (C04 holds; C12 does not)")
M("C12-elites-from-offspring", "C12", SEA, "        top_k_parent_population = parent_population.topk(self.k_elites)", "        top_k_parent_population = offspring_population.topk(self.k_elites)", ["R12.3", "R12.2"], "elites taken from the offspring")
T("C04-t-cut-n-minus-one", "C04", SEA, "        return offspring_population.merge(top_k_parent_population).topk(parent_population.size)", "        return offspring_population.merge(top_k_parent_population).topk(parent_population.size - 1).merge(offspring_population.topk(1))", "selection rewritten: the best offspring and the elites still survive")
M("C04-intermediate-eval", "C04", SEA, '''                TournamentSelection(),
                ArithmeticCrossover(probability=p_crossover, evaluate_fitness=False),
                GaussianMutation(std=mutation_std, bounds=problem.bounds, probability=p_mutation),''', '''                TournamentSelection(),
                ArithmeticCrossover(probability=p_crossover, evaluate_fitness=True),
                GaussianMutation(std=mutation_std, bounds=problem.bounds, probability=p_mutation),''', ["R04.5"], "crossover children evaluated, then mutated away unrecorded")
T("C04-t-de-same-mask", "C04", DEPY, "            trial_population[new_population_indices].merge(parent_population[~new_population_indices]).to_individuals()", "            trial_population[new_population_indices].merge(parent_population[new_population_indices]).to_individuals()", "DE keeps parents of the replaced slots: every better trial is still kept and the dropped parents were recorded a generation earlier (C04 holds; C12 does not)")
M("C12-de-same-mask", "C12", DEPY, "            trial_population[new_population_indices].merge(parent_population[~new_population_indices]).to_individuals()", "            trial_population[new_population_indices].merge(parent_population[new_population_indices]).to_individuals()", ["R12.2", "R12.3"], "DE keeps parents of the replaced slots")
M("C04-popsize-from-maxfun", "C04", HMS, "            pop_size=get_default_population_size(bounds, tree_level=0),", "            pop_size=get_default_population_size(bounds, tree_level=0) if not maxfun or maxfun > 500 else 10,", ["R04.6"], "population size depends on the budget")
M("C04-history-sorted", "C04", ABS, "        return self.history[-1]", "        last = self.history[-1]\n        last.sort()\n        return last", ["R04.2"], "current_population sorts the recorded generation in place")
T("C04-t-tree-best-all-demes", "C04", TREE, "        return max(deme.best_individual for level in self._levels for deme in level if deme.best_individual)", "        return max(deme.best_individual for _, deme in self.all_demes if deme.best_individual)", "tree best via all_demes")

# ----------------------------------------------------------------------------- C12
M("C12-pinned-ea", "C12", EA, '''        parents = self.current_population
        while epoch_counter < self._generations:
            offspring = self._ea.run(parents, mutation_std=self._get_mutation_std())
            parents = offspring
''', '''        while epoch_counter < self._generations:
            offspring = self._ea.run(self.current_population, mutation_std=self._get_mutation_std())
''', ["R12.1"], "pinned defect: generations bred from a stale population lose ground")
M("C12-elites-from-offspring", "C12", SEA, "        top_k_parent_population = parent_population.topk(self.k_elites)", "        top_k_parent_population = offspring_population.topk(self.k_elites)", ["R12.2", "R12.3"], "no parent survives")
M("C12-cut-size", "C12", SEA, "        return offspring_population.merge(top_k_parent_population).topk(parent_population.size)", "        return offspring_population.merge(top_k_parent_population).topk(parent_population.size + self.k_elites)", ["R12.2"], "population grows by k every generation")
M("C12-default-no-elite", "C12", SEA, "DEFAULT_K_ELITES = 1", "DEFAULT_K_ELITES = 0", ["R12.3"], "default SEA not elitist")
M("C12-crossover-engine-no-elite", "C12", SEA, '''                GaussianMutation(std=mutation_std, bounds=problem.bounds, probability=p_mutation),
            ],
            k_elites=k_elites,
        )


class GAStyleSEA''', '''                GaussianMutation(std=mutation_std, bounds=problem.bounds, probability=p_mutation),
            ],
            k_elites=0,
        )


class GAStyleSEA''', ["R12.3"], "SEAWithCrossover ignores k_elites")
M("C12-topk-slice", "C12", POP, "topk_indices = np.argsort(self.fitnesses)[-k:] if self.problem.maximize else np.argsort(self.fitnesses)[:k]", "topk_indices = np.argsort(self.fitnesses)[-k - 1 :] if self.problem.maximize else np.argsort(self.fitnesses)[: k + 1]", ["R12.2"], "topk returns k + 1 rows")
M("C12-de-complement", "C12", DEPY, "            trial_population[new_population_indices].merge(parent_population[~new_population_indices]).to_individuals()", "            trial_population[new_population_indices].merge(parent_population).to_individuals()", ["R12.2"], "DE population grows")
M("C12-shade-mask-swapped", "C12", DEPY, '''            (offspring_population.fitnesses >= parent_population.fitnesses)
            if parent_population.problem.maximize
            else (offspring_population.fitnesses <= parent_population.fitnesses)''', '''            (offspring_population.fitnesses <= parent_population.fitnesses)
            if parent_population.problem.maximize
            else (offspring_population.fitnesses >= parent_population.fitnesses)''', ["R12.3"], "SHADE keeps the worse of each pair")
M("C12-tournament-shape", "C12", SEA, "tournament_indices = np.random.randint(0, num_individuals, (num_individuals, self.tournament_size))", "tournament_indices = np.random.randint(0, num_individuals, (num_individuals - 1, self.tournament_size))", ["R12.4"], "one tournament too few")
M("C12-adaptive-bypass", "C12", SEA, "        return super().run(parents, **kwargs)", "        population = Population.from_individuals(parents)\n        for op in self.variational_operators_pipeline:\n            population = op(population)\n        return population.to_individuals()", ["R12.5"], "adaptive SEA bypasses selection")
M("C12-seeded-size", "C12", EA, "                self._pop_size - 1,\n", "                self._pop_size - 2,\n", ["R12.2"], "seeded EA deme one individual short")
T("C12-t-selection-locals", "C12", SEA, '''        top_k_parent_population = parent_population.topk(self.k_elites)
        return offspring_population.merge(top_k_parent_population).topk(parent_population.size)''', '''        elites = parent_population.topk(self.k_elites)
        candidates = offspring_population.merge(elites)
        return candidates.topk(parent_population.size)''', "selection split into locals")

# ----------------------------------------------------------------------------- C15
M("C15-pinned-id", "C15", NBC, "    return str(np.asarray(individual.genome).tolist())", "    return str(individual.genome)", ["R15.1", "R15.2"], "pinned defect: lossy identifier")
M("C15-rounded-id", "C15", NBC, "    return str(np.asarray(individual.genome).tolist())", "    return str(np.round(individual.genome, 10).tolist())", ["R15.1"], "identifier rounded to 10 decimals")
M("C15-fstring-id", "C15", NBC, "    return str(np.asarray(individual.genome).tolist())", '    return f"{individual.genome}"', ["R15.1"], "f-string of the array")
M("C15-worst-first", "C15", NBC, "        sorted_individuals = sorted(evaluated_individuals, reverse=True)", "        sorted_individuals = sorted(evaluated_individuals)", ["R15.3"], "worst-first order")
M("C15-truncation-ceil", "C15", NBC, "        self.individuals = sorted_individuals[: int(len(sorted_individuals) * truncation_factor)]", "        self.individuals = sorted_individuals[: int(len(sorted_individuals) * truncation_factor) + 1]", ["R15.3"], "one individual too many survives truncation")
M("C15-better-includes-self", "C15", NBC, "                better_individuals = self.individuals[: self.individuals.index(ind)]", "                better_individuals = self.individuals[: self.individuals.index(ind) + 1]", ["R15.3"], "an individual is its own nearest better (distance 0)")
M("C15-no-tie-rule", "C15", NBC, '''            if ind == root:
                better_individuals = [root]
            else:
                better_individuals = self.individuals[: self.individuals.index(ind)]''', '''            better_individuals = self.individuals[: self.individuals.index(ind)]''', ["R15.3"], "tie rule with the best removed (index() finds the root for ties -> empty better-set)")
M("C15-cut-ge", "C15", NBC, 'node for node in nodes if node.data["distance"] > mean_distance * self.distance_factor * correction_factor', 'node for node in nodes if node.data["distance"] >= mean_distance * self.distance_factor * correction_factor', ["R15.4"], "non-strict cut")
M("C15-mean-includes-inf", "C15", NBC, '        return [node.data["distance"] for node in self.tree.all_nodes() if not np.isinf(node.data["distance"])]', '        return [node.data["distance"] for node in self.tree.all_nodes()]', ["R15.4"], "root's inf enters the mean")
M("C15-nearest-argmax", "C15", NBC, "        nearest_better_index = np.argmin(distances)", "        nearest_better_index = np.argmax(distances)", ["R15.3"], "farthest better instead of nearest")
M("C15-manhattan", "C15", NBC, "        distances = np.linalg.norm(individual.genome - better_genomes, axis=1)", "        distances = np.linalg.norm(individual.genome - better_genomes, ord=1, axis=1)", ["R15.3"], "Manhattan distance")
M("C15-swallow-all", "C15", NBC, "            except DuplicatedNodeIdError:\n                pass", "            except Exception:\n                pass", ["R15.2"], "every exception while building the tree is swallowed")
T("C15-t-tobytes", "C15", NBC, "    return str(np.asarray(individual.genome).tolist())", "    return np.asarray(individual.genome).tobytes().hex()", "tobytes identifier")

# ----------------------------------------------------------------------------- C19
M("C19-stdlib-pickle", "C19", TREE, "import dill as pkl\n", "import pickle as pkl\n", ["R19.2"], "stdlib pickle")
M("C19-dump-clears-logger", "C19", TREE, '''        self._logger.info("Dumping tree snapshot", filepath=filepath)
        with open(filepath, "wb") as f:
            pkl.dump(self, f)''', '''        self._logger.info("Dumping tree snapshot", filepath=filepath)
        logger, self._logger = self._logger, None
        with open(filepath, "wb") as f:
            pkl.dump(self, f)
        if logger is not None and len(self.all_demes) < 100:
            self._logger = logger''', ["R19.1"], "dump swaps the logger on the live tree")
M("C19-dump-levels-only", "C19", TREE, "            pkl.dump(self, f)", "            pkl.dump(self._levels, f)", ["R19.1"], "only the levels are dumped")
M("C19-module-cache", "C19", PROB, '''class FunctionProblem(Problem):
    def __init__(''', '''_EVALUATION_LOG: list = []


class FunctionProblem(Problem):
    def __init__(''', ["R19.3"], "placeholder")
CORPUS.pop()
MM("C19-module-cache", "C19", [(PROB, '''class FunctionProblem(Problem):
    def __init__(''', '''_EVALUATION_LOG: list = []


class FunctionProblem(Problem):
    def __init__('''), (PROB, '''        result = self.fitness_function(genome, *args, **kwargs)
        if self._cache:''', '''        result = self.fitness_function(genome, *args, **kwargs)
        _EVALUATION_LOG.append(result)
        if self._cache:''')], ["R19.3"], "module-level evaluation log grows during the run")
M("C19-class-counter", "C19", ABS, "        self._hibernating: bool = False\n", "        self._hibernating: bool = False\n        AbstractDeme.created = getattr(AbstractDeme, 'created', 0) + 1\n", ["R19.3"], "class-level deme counter")
MM("C19-getstate-drops", "C19", [(ABS, '''    def add_child(self, deme: "AbstractDeme") -> None:''', '''    def __getstate__(self):
        state = self.__dict__.copy()
        state.pop("_logger", None)
        state.pop("_children", None)
        return state

    def add_child(self, deme: "AbstractDeme") -> None:''')], ["R19.4"], "__getstate__ drops the children")
M("C19-open-file-attr", "C19", TREE, "        nlevels = len(config.levels)\n", "        nlevels = len(config.levels)\n        self._trace = open(config.options['trace_file'], 'a') if 'trace_file' in config.options else None\n", ["R19.5"], "open trace file stored on the tree")
M("C19-load-mutates", "C19", TREE, '''        tree._logger.info("Tree loaded from snapshot", filepath=filepath)
        return tree''', '''        tree._logger.info("Tree loaded from snapshot", filepath=filepath)
        tree.metaepoch_count += 0
        np.random.seed(tree._random_seed)
        return tree''', ["R19.1"], "load reseeds the global generator")
T("C19-t-dump-local", "C19", TREE, '''        with open(filepath, "wb") as f:
            pkl.dump(self, f)''', '''        with open(filepath, "wb") as snapshot_file:
            pkl.dump(self, snapshot_file)''', "renamed file handle")

# ----------------------------------------------------------------------------- found by the generic mutation sweep (tools/mutgen.py)
M("C02-cma-start-unevaluated", "C02", CMA, "        Individual.evaluate_population(starting_pop)\n", "", ["R02.10"], "CMA deme records its starting population without evaluating it")
M("C02-lhs-unevaluated", "C02", LHS, "        Individual.evaluate_population(population)\n", "", ["R02.10"], "LHS deme records an unevaluated sample")
T("C02-t-evaluate-loop", "C02", LHS, "        Individual.evaluate_population(population)\n", "        for sampled in population:\n            sampled.evaluate()\n", "explicit evaluation loop")
