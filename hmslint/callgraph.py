"""Receiver-type inference and callee resolution over the Program model.

Types (hashable tuples):
  ("inst", qualname)   instance of a repo class
  ("cls", qualname)    the class object itself
  ("func", qualname)   a repo function object (closures returned by factories)
  ("list", T) ("set", T) ("dict", K, V) ("tuple", (T, ...)) ("iter", T)
  ("ext", dotted)      instance / value of an external type (numpy.ndarray, cma...., builtins.int)
  ("extfn", dotted)    external callable (np.random.rand)
  ("mod", dotted)      module object
  ("union", frozenset) several possibilities
  None                 unknown
"""
from __future__ import annotations

import ast
import builtins
from dataclasses import dataclass, field

from .model import ClassInfo, FuncInfo, Module, Program, body_walk, norm

BUILTIN_NAMES = set(dir(builtins))

# methods of builtin containers / ndarray etc. are external and effect-tabled in effects.py
LIST_MUTATORS = {"append", "extend", "insert", "pop", "remove", "clear", "sort", "reverse", "__setitem__", "__delitem__"}
DICT_MUTATORS = {"update", "pop", "popitem", "clear", "setdefault", "__setitem__", "__delitem__"}
SET_MUTATORS = {"add", "discard", "remove", "pop", "clear", "update", "difference_update", "intersection_update"}


def union(types) -> tuple | None:
    flat = set()
    for t in types:
        if t is None:
            continue
        if t[0] == "union":
            flat |= set(t[1])
        else:
            flat.add(t)
    if not flat:
        return None
    if len(flat) == 1:
        return next(iter(flat))
    return ("union", frozenset(flat))


def members(t) -> list[tuple]:
    if t is None:
        return []
    if t[0] == "union":
        return sorted(t[1], key=repr)
    return [t]


@dataclass
class CallSite:
    caller: FuncInfo
    node: ast.AST  # ast.Call, or ast.Attribute for a property read, or ast.Compare etc. for dunder dispatch
    kind: str  # call | property | dunder | ctor
    targets: list[FuncInfo] = field(default_factory=list)
    external: str | None = None  # dotted name of an external callee
    method: str | None = None  # attribute name for method-style calls
    recv_type: tuple | None = None
    unresolved: bool = False
    cha: bool = False  # resolved by name-only class-hierarchy fallback

    @property
    def lineno(self) -> int:
        return getattr(self.node, "lineno", 0)

    def where(self) -> str:
        return f"{self.caller.module.relpath}:{self.lineno}"


class Resolver:
    def __init__(self, prog: Program) -> None:
        self.prog = prog
        self.attr_types: dict[tuple[str, str], tuple | None] = {}
        self._attr_assigns: dict[tuple[str, str], list] = {}
        self._ret_cache: dict[str, tuple | None] = {}
        self._ret_busy: set[str] = set()
        self._env_cache: dict[str, dict] = {}
        self.param_types: dict[tuple[str, str], tuple | None] = {}  # back-propagated
        self._collect_attr_assignments()
        self.sites: dict[str, list[CallSite]] = {}
        self._build()

    # ---------------------------------------------------------------- annotations
    def ann_type(self, a: ast.expr | None, m: Module) -> tuple | None:
        if a is None:
            return None
        if isinstance(a, ast.Constant):
            if isinstance(a.value, str):
                try:
                    return self.ann_type(ast.parse(a.value, mode="eval").body, m)
                except SyntaxError:
                    return None
            return None
        if isinstance(a, ast.BinOp) and isinstance(a.op, ast.BitOr):
            return union([self.ann_type(a.left, m), self.ann_type(a.right, m)])
        if isinstance(a, ast.Name):
            if a.id in ("int", "float", "str", "bool", "bytes", "complex"):
                return ("ext", "builtins." + a.id)
            if a.id in ("list", "List"):
                return ("list", None)
            if a.id in ("dict", "Dict"):
                return ("dict", None, None)
            if a.id in ("set", "Set", "frozenset"):
                return ("set", None)
            if a.id in ("tuple", "Tuple"):
                return ("tuple", ())
            r = self.prog.resolve_name(a.id, m)
            if isinstance(r, ClassInfo):
                return ("inst", r.qualname)
            if isinstance(r, tuple) and r[0] == "external":
                return ("ext", r[1])
            return None
        if isinstance(a, ast.Attribute):
            d = self.prog.dotted(a, m)
            if d is None:
                return None
            if d in self.prog.classes:
                return ("inst", d)
            return ("ext", d)
        if isinstance(a, ast.Subscript):
            base = norm(a.value).split(".")[-1]
            sl = a.slice
            elts = list(sl.elts) if isinstance(sl, ast.Tuple) else [sl]
            if base in ("list", "List", "Sequence", "Iterable", "Iterator"):
                return ("list", self.ann_type(elts[0], m))
            if base in ("set", "Set", "frozenset"):
                return ("set", self.ann_type(elts[0], m))
            if base in ("dict", "Dict", "Mapping"):
                k = self.ann_type(elts[0], m)
                v = self.ann_type(elts[1], m) if len(elts) > 1 else None
                return ("dict", k, v)
            if base in ("tuple", "Tuple"):
                return ("tuple", tuple(self.ann_type(e, m) for e in elts))
            if base in ("Type", "type"):
                t = self.ann_type(elts[0], m)
                if t and t[0] == "inst":
                    return ("cls", t[1])
                return None
            if base in ("Optional",):
                return self.ann_type(elts[0], m)
            if base in ("Union",):
                return union([self.ann_type(e, m) for e in elts])
            if base in ("Callable",):
                return None
            return self.ann_type(a.value, m)
        return None

    # ---------------------------------------------------------------- attribute types
    def _collect_attr_assignments(self) -> None:
        for ci in self.prog.classes.values():
            for f in self.prog.functions_in(ci):
                sn = f.self_name() if f.parent is None else (f.parent.self_name())
                if sn is None:
                    continue
                for n in body_walk(f.node):
                    tgt = val = ann = None
                    if isinstance(n, ast.AnnAssign):
                        tgt, val, ann = n.target, n.value, n.annotation
                        pairs = [(tgt, val, ann)]
                    elif isinstance(n, ast.Assign):
                        pairs = [(t, n.value, None) for t in n.targets]
                    else:
                        continue
                    for tgt, val, ann in pairs:
                        if isinstance(tgt, ast.Attribute) and isinstance(tgt.value, ast.Name) and tgt.value.id == sn:
                            self._attr_assigns.setdefault((ci.qualname, tgt.attr), []).append((f, val, ann))
            for name, st in ci.class_attrs.items():
                if isinstance(st, ast.AnnAssign):
                    self._attr_assigns.setdefault((ci.qualname, name), []).append((None, st.value, st.annotation))
                    # dataclass-style field annotation gives the type directly
                elif isinstance(st, ast.Assign):
                    self._attr_assigns.setdefault((ci.qualname, name), []).append((None, st.value, None))

    def attr_type(self, cls_q: str, attr: str) -> tuple | None:
        ci = self.prog.classes.get(cls_q)
        if ci is None:
            return None
        for c in self.prog.mro(ci):
            key = (c.qualname, attr)
            if key in self.attr_types:
                if self.attr_types[key] is not None:
                    return self.attr_types[key]
                continue
            if key not in self._attr_assigns:
                continue
            self.attr_types[key] = None  # cycle guard
            ts = []
            for f, val, ann in self._attr_assigns[key]:
                if ann is not None:
                    ts.append(self.ann_type(ann, c.module))
                elif val is not None and f is not None:
                    ts.append(self.type_of(val, f))
                elif val is not None:
                    ts.append(self.type_of(val, self.prog.module_func(c.module)))
            t = union(ts)
            self.attr_types[key] = t
            if t is not None:
                return t
        return None

    def global_type(self, modname: str, sym: str):
        key = ("<global>", modname + "." + sym)
        if key in self.attr_types:
            return self.attr_types[key]
        self.attr_types[key] = None
        mod = self.prog.modules.get(modname)
        st = mod.globals_.get(sym) if mod else None
        t = None
        if isinstance(st, ast.AnnAssign):
            t = self.ann_type(st.annotation, mod)
        if t is None and st is not None and getattr(st, "value", None) is not None:
            t = self.type_of(st.value, self.prog.module_func(mod))
        self.attr_types[key] = t
        return t

    def _type_of_modlevel(self, e, m: Module):
        if isinstance(e, ast.Call):
            r = self._resolve_callable_expr_modlevel(e.func, m)
            if isinstance(r, ClassInfo):
                return ("inst", r.qualname)
        return None

    def _resolve_callable_expr_modlevel(self, e, m):
        if isinstance(e, ast.Name):
            return self.prog.resolve_name(e.id, m)
        return None

    # ---------------------------------------------------------------- local environments
    def env(self, f: FuncInfo) -> dict[str, tuple | None]:
        if f.qualname in self._env_cache:
            return self._env_cache[f.qualname]
        env: dict[str, tuple | None] = {}
        self._env_cache[f.qualname] = env
        if f.parent is not None:
            env.update(self.env(f.parent))
        a = f.node.args
        allargs = a.posonlyargs + a.args + a.kwonlyargs
        for i, p in enumerate(allargs):
            t = self.ann_type(p.annotation, f.module)
            if t is not None and t[0] == "ext" and t[1] in ("typing.Callable", "collections.abc.Callable"):
                t = None
            if t is None and i == 0 and f.cls is not None and f.parent is None and not f.is_static:
                t = ("cls", f.cls.qualname) if f.is_classmethod else ("inst", f.cls.qualname)
            if t is None:
                t = self.param_types.get((f.qualname, p.arg))
            if t is None:
                dflt = self._default_of(f, p.arg)
                if isinstance(dflt, ast.Constant) and dflt.value is not None:
                    t = ("ext", "builtins." + type(dflt.value).__name__)
            env[p.arg] = t
        if a.vararg:
            env[a.vararg.arg] = ("tuple", ())
        if a.kwarg:
            env[a.kwarg.arg] = ("dict", ("ext", "builtins.str"), None)
        for name, nf in f.nested.items():
            env[name] = ("func", nf.qualname)
        # flow-insensitive local types; two passes so that chains settle
        for _ in range(3):
            changed = False
            for n in body_walk(f.node):
                for name, t in self._bindings(n, f):
                    old = env.get(name)
                    new = union([old, t]) if name in env and old is not None else (t if t is not None else old)
                    if name not in env or new != old:
                        if name in [p.arg for p in allargs] and env.get(name) is not None and t is None:
                            continue
                        env[name] = new
                        changed = True
            if not changed:
                break
        return env

    @staticmethod
    def _default_of(f: FuncInfo, name: str):
        a = f.node.args
        pos = a.posonlyargs + a.args
        for p, d in zip(pos[len(pos) - len(a.defaults):], a.defaults):
            if p.arg == name:
                return d
        for p, d in zip(a.kwonlyargs, a.kw_defaults):
            if p.arg == name:
                return d
        return None

    def _bindings(self, n: ast.AST, f: FuncInfo):
        """(name, type) pairs defined by node n."""
        if isinstance(n, ast.Assign):
            vt = self.type_of(n.value, f)
            for t in n.targets:
                yield from self._bind_target(t, vt, n.value, f)
        elif isinstance(n, ast.AnnAssign) and isinstance(n.target, ast.Name):
            yield n.target.id, self.ann_type(n.annotation, f.module) or (self.type_of(n.value, f) if n.value else None)
        elif isinstance(n, ast.NamedExpr) and isinstance(n.target, ast.Name):
            yield n.target.id, self.type_of(n.value, f)
        elif isinstance(n, (ast.For, ast.AsyncFor)):
            yield from self._bind_target(n.target, self.elem_type(self.type_of(n.iter, f)), None, f)
        elif isinstance(n, ast.comprehension):
            yield from self._bind_target(n.target, self.elem_type(self.type_of(n.iter, f)), None, f)
        elif isinstance(n, (ast.With, ast.AsyncWith)):
            for it in n.items:
                if it.optional_vars is not None and isinstance(it.optional_vars, ast.Name):
                    yield it.optional_vars.id, self.type_of(it.context_expr, f)
        elif isinstance(n, (ast.Import, ast.ImportFrom)):
            tmp: dict = {}
            self.prog._index_imports(f.module, [n], tmp)
            for alias, imp in tmp.items():
                if imp[0] == "module":
                    yield alias, ("mod", imp[1])
                else:
                    r = self.prog.resolve_symbol(imp[1], imp[2])
                    yield alias, self._sym_type(r)

    def _bind_target(self, tgt, vt, val, f):
        if isinstance(tgt, ast.Name):
            yield tgt.id, vt
        elif isinstance(tgt, (ast.Tuple, ast.List)):
            for i, el in enumerate(tgt.elts):
                et = None
                if vt is not None and vt[0] == "tuple" and i < len(vt[1]):
                    et = vt[1][i]
                elif vt is not None and vt[0] in ("list", "iter", "set"):
                    et = vt[1]
                yield from self._bind_target(el, et, None, f)
        elif isinstance(tgt, ast.Starred):
            yield from self._bind_target(tgt.value, None, None, f)

    @staticmethod
    def elem_type(t):
        if t is None:
            return None
        if t[0] in ("list", "set", "iter"):
            return t[1]
        if t[0] == "dict":
            return t[1]
        if t[0] == "tuple":
            return union(t[1]) if t[1] else None
        if t[0] == "union":
            return union([Resolver.elem_type(x) for x in t[1]])
        if t[0] == "ext" and t[1] == "numpy.ndarray":
            return ("ext", "numpy.ndarray")
        return None

    def _sym_type(self, r):
        if isinstance(r, ClassInfo):
            return ("cls", r.qualname)
        if isinstance(r, FuncInfo):
            return ("func", r.qualname)
        if isinstance(r, tuple):
            if r[0] == "module":
                return ("mod", r[1])
            if r[0] == "external":
                return ("extfn", r[1])
        return None

    # ---------------------------------------------------------------- expression types
    def type_of(self, e: ast.expr | None, f: FuncInfo, _depth: int = 0) -> tuple | None:
        if e is None or _depth > 12:
            return None
        d = _depth + 1
        if isinstance(e, ast.Name):
            env = self.env(f)
            if e.id in env:
                return env[e.id]
            r = self.prog.resolve_name(e.id, f.module)
            if r is not None:
                if isinstance(r, tuple) and r[0] == "global":
                    return self.global_type(r[1], r[2])
                return self._sym_type(r)
            if e.id in f.module.globals_:
                return self.global_type(f.module.name, e.id)
            return None
        if isinstance(e, ast.Constant):
            if e.value is None:
                return None
            return ("ext", "builtins." + type(e.value).__name__)
        if isinstance(e, ast.Attribute):
            bt = self.type_of(e.value, f, d)
            ts = []
            for t in members(bt):
                ts.append(self._attr_of(t, e.attr, f))
            return union(ts)
        if isinstance(e, ast.Call):
            return self._call_type(e, f, d)
        if isinstance(e, ast.Subscript):
            bt = self.type_of(e.value, f, d)
            ts = []
            for t in members(bt):
                if t[0] == "list":
                    ts.append(t if isinstance(e.slice, ast.Slice) else t[1])
                elif t[0] == "dict":
                    ts.append(t[2])
                elif t[0] == "tuple":
                    if isinstance(e.slice, ast.Constant) and isinstance(e.slice.value, int) and -len(t[1]) <= e.slice.value < len(t[1]):
                        ts.append(t[1][e.slice.value])
                    else:
                        ts.append(union(t[1]) if t[1] else None)
                elif t[0] == "ext" and t[1] == "numpy.ndarray":
                    ts.append(t)
                elif t[0] == "inst":
                    gi = self.prog.lookup_method(self.prog.classes[t[1]], "__getitem__")
                    if gi is not None:
                        ts.append(self.return_type(gi))
            return union(ts)
        if isinstance(e, (ast.List, ast.ListComp)):
            if isinstance(e, ast.List):
                return ("list", union([self.type_of(x, f, d) for x in e.elts]))
            return ("list", self.type_of(e.elt, f, d))
        if isinstance(e, ast.GeneratorExp):
            return ("iter", self.type_of(e.elt, f, d))
        if isinstance(e, (ast.Set, ast.SetComp)):
            if isinstance(e, ast.Set):
                return ("set", union([self.type_of(x, f, d) for x in e.elts]))
            return ("set", self.type_of(e.elt, f, d))
        if isinstance(e, ast.Dict):
            return ("dict", union([self.type_of(k, f, d) for k in e.keys if k is not None]), union([self.type_of(v, f, d) for v in e.values]))
        if isinstance(e, ast.DictComp):
            return ("dict", self.type_of(e.key, f, d), self.type_of(e.value, f, d))
        if isinstance(e, ast.Tuple):
            return ("tuple", tuple(self.type_of(x, f, d) for x in e.elts))
        if isinstance(e, ast.IfExp):
            return union([self.type_of(e.body, f, d), self.type_of(e.orelse, f, d)])
        if isinstance(e, ast.BoolOp):
            return union([self.type_of(v, f, d) for v in e.values])
        if isinstance(e, ast.NamedExpr):
            return self.type_of(e.value, f, d)
        if isinstance(e, ast.BinOp):
            lt = self.type_of(e.left, f, d)
            rt = self.type_of(e.right, f, d)
            for t in (lt, rt):
                if t is not None and t[0] == "ext" and t[1] == "numpy.ndarray":
                    return t
            if lt is not None and lt[0] in ("list", "dict") and isinstance(e.op, (ast.Add, ast.BitOr)):
                return lt
            return lt if lt is not None and lt[0] == "ext" else rt if rt is not None and rt[0] == "ext" else None
        if isinstance(e, ast.UnaryOp):
            if isinstance(e.op, ast.Not):
                return ("ext", "builtins.bool")
            return self.type_of(e.operand, f, d)
        if isinstance(e, ast.Compare):
            return ("ext", "builtins.bool")
        if isinstance(e, ast.JoinedStr):
            return ("ext", "builtins.str")
        if isinstance(e, ast.Lambda):
            return ("ext", "builtins.function")
        if isinstance(e, ast.Starred):
            return self.type_of(e.value, f, d)
        return None

    def _attr_of(self, t, attr: str, f: FuncInfo):
        if t[0] == "inst":
            ci = self.prog.classes.get(t[1])
            if ci is None:
                return None
            if attr == "__dict__":
                return ("dict", ("ext", "builtins.str"), None)
            if attr == "__class__":
                return ("cls", t[1])
            if any(b.endswith("TypedDict") for c in self.prog.mro(ci) for b in c.ext_bases):
                return ("contmeth", ("dict", ("ext", "builtins.str"), None), attr)
            m = self.prog.lookup_method(ci, attr)
            if m is not None:
                if m.is_property:
                    # dynamic dispatch over overrides
                    return union([self.return_type(x) for x in self.dispatch(ci, attr)])
                return ("bound", m.qualname, t[1])
            at = self.attr_type(t[1], attr)
            if at is not None:
                return at
            # attribute defined only on subclasses
            ts = []
            for sc in self.prog.subclasses(ci):
                if (sc.qualname, attr) in self._attr_assigns:
                    ts.append(self.attr_type(sc.qualname, attr))
            return union(ts)
        if t[0] == "cls":
            ci = self.prog.classes.get(t[1])
            if ci is None:
                return None
            m = self.prog.lookup_method(ci, attr)
            if m is not None:
                return ("bound", m.qualname, t[1]) if (m.is_classmethod or m.is_static) else ("func", m.qualname)
            return self.attr_type(t[1], attr)
        if t[0] == "mod":
            full = t[1] + "." + attr
            if full in self.prog.modules:
                return ("mod", full)
            mod = self.prog.modules.get(t[1])
            if mod is not None:
                return self._sym_type(self.prog.resolve_symbol(t[1], attr))
            return ("extfn", full)
        if t[0] == "extfn":
            return ("extfn", t[1] + "." + attr)
        if t[0] == "ext":
            return ("extattr", t[1], attr)
        if t[0] in ("list", "dict", "set", "tuple", "iter"):
            return ("contmeth", t, attr)
        if t[0] == "super":
            ci = self.prog.classes.get(t[1])
            m = self.prog.lookup_method(ci, attr, after=ci) if ci else None
            if m is not None:
                return ("bound", m.qualname, t[1])
            return ("extattr", "builtins.object", attr)
        return None

    def _call_type(self, e: ast.Call, f: FuncInfo, d: int):
        fn = e.func
        if isinstance(fn, ast.Name):
            if fn.id == "super" and f.cls is not None:
                owner = f.cls
                return ("super", owner.qualname)
            if fn.id not in self.env(f) and fn.id in BUILTIN_NAMES and self.prog.resolve_name(fn.id, f.module) is None:
                return self._builtin_call_type(fn.id, e, f, d)
        ft = self.type_of(fn, f, d)
        ts = []
        for t in members(ft):
            if t[0] == "cls":
                ts.append(("inst", t[1]))
            elif t[0] == "func":
                fi = self.prog.functions.get(t[1])
                if fi is not None:
                    ts.append(self.return_type(fi))
            elif t[0] == "bound":
                fi = self.prog.functions.get(t[1])
                if fi is not None:
                    recv = self.prog.classes.get(t[2])
                    rts = []
                    cands = self.dispatch(recv, fi.name) if recv is not None and not fi.is_static else [fi]
                    for c in cands or [fi]:
                        rt = self.return_type(c)
                        # `-> "Self-like"` factories: classmethod create() returning cls(...)
                        rts.append(rt)
                    ts.append(union(rts))
            elif t[0] == "inst":
                ci = self.prog.classes.get(t[1])
                if ci is not None:
                    ts.append(union([self.return_type(x) for x in self.dispatch(ci, "__call__")]))
            elif t[0] == "extfn":
                ts.append(self._ext_return(t[1]))
            elif t[0] == "extattr":
                ts.append(self._ext_method_return(t[1], t[2]))
            elif t[0] == "contmeth":
                ts.append(self._container_method_return(t[1], t[2]))
        return union(ts)

    def _builtin_call_type(self, name, e, f, d):
        args = e.args
        a0 = self.type_of(args[0], f, d) if args else None
        if name in ("list", "sorted"):
            return ("list", self.elem_type(a0))
        if name in ("reversed", "iter", "filter"):
            src = self.type_of(args[-1], f, d) if args else None
            return ("iter", self.elem_type(src))
        if name == "enumerate":
            return ("iter", ("tuple", (("ext", "builtins.int"), self.elem_type(a0))))
        if name == "zip":
            return ("iter", ("tuple", tuple(self.elem_type(self.type_of(a, f, d)) for a in args)))
        if name in ("max", "min"):
            if len(args) == 1:
                return self.elem_type(a0)
            return union([self.type_of(a, f, d) for a in args])
        if name in ("set", "frozenset"):
            return ("set", self.elem_type(a0))
        if name == "dict":
            return ("dict", None, None)
        if name == "tuple":
            return ("tuple", ())
        if name in ("len", "int", "sum", "abs", "round"):
            return ("ext", "builtins.int") if name in ("len", "int") else ("ext", "builtins.float")
        if name in ("float",):
            return ("ext", "builtins.float")
        if name in ("str", "repr", "format"):
            return ("ext", "builtins.str")
        if name in ("bool", "isinstance", "issubclass", "all", "any", "callable", "hasattr"):
            return ("ext", "builtins.bool")
        if name == "range":
            return ("iter", ("ext", "builtins.int"))
        if name == "type" and len(args) == 1:
            if a0 is not None and a0[0] == "inst":
                return ("cls", a0[1])
            return None
        if name == "open":
            return ("ext", "io.File")
        if name == "next":
            return self.elem_type(a0)
        return None

    @staticmethod
    def _ext_return(dotted: str):
        if dotted.startswith("numpy.") and not dotted.startswith("numpy.random.default_rng"):
            return ("ext", "numpy.ndarray")
        if dotted in ("copy.copy", "copy.deepcopy"):
            return None
        # constructor-like: an external class instance
        return ("ext", dotted)

    @staticmethod
    def _ext_method_return(owner: str, attr: str):
        if owner == "numpy.ndarray":
            return ("ext", "numpy.ndarray")
        return ("ext", f"{owner}.{attr}()")

    @staticmethod
    def _container_method_return(ct, attr):
        if ct[0] == "dict":
            if attr == "keys":
                return ("iter", ct[1])
            if attr == "values":
                return ("iter", ct[2])
            if attr == "items":
                return ("iter", ("tuple", (ct[1], ct[2])))
            if attr in ("get", "pop", "setdefault"):
                return ct[2]
            if attr == "copy":
                return ct
        if ct[0] == "list":
            if attr == "pop":
                return ct[1]
            if attr == "copy":
                return ct
            if attr in ("index", "count"):
                return ("ext", "builtins.int")
        return None

    # ---------------------------------------------------------------- return types
    def return_type(self, fi: FuncInfo) -> tuple | None:
        q = fi.qualname
        if q in self._ret_cache:
            return self._ret_cache[q]
        if q in self._ret_busy:
            return None
        self._ret_busy.add(q)
        try:
            t = self.ann_type(fi.node.returns, fi.module)
            if t is None and fi.node.returns is None:
                ts = []
                for n in body_walk(fi.node):
                    if isinstance(n, ast.Return) and n.value is not None:
                        ts.append(self.type_of(n.value, fi))
                t = union(ts)
            # classmethod factories annotated with the base class: refine with cls(...) returns
            self._ret_cache[q] = t
            return t
        finally:
            self._ret_busy.discard(q)

    # ---------------------------------------------------------------- dispatch
    def dispatch(self, ci: ClassInfo | None, name: str) -> list[FuncInfo]:
        """All implementations a call `x.name` may reach when x is statically of class ci."""
        if ci is None:
            return []
        out = []
        base = self.prog.lookup_method(ci, name)
        if base is not None:
            out.append(base)
        for sc in self.prog.subclasses(ci):
            if name in sc.methods and sc.methods[name] not in out:
                out.append(sc.methods[name])
        return out

    # ---------------------------------------------------------------- call sites
    def _build(self) -> None:
        # iterate so that back-propagated parameter types settle
        for _round in range(4):
            self._env_cache.clear()
            self._ret_cache.clear()
            self.attr_types.clear()
            self.sites = {}
            for f in self.prog.all_functions():
                self.sites[f.qualname] = self._sites_of(f)
            if not self._backprop_params():
                break
        self._env_cache.clear()
        self._ret_cache.clear()
        self.attr_types.clear()
        self.sites = {f.qualname: self._sites_of(f) for f in self.prog.all_functions()}

    def _backprop_params(self) -> bool:
        changed = False
        acc: dict[tuple[str, str], list] = {}
        for q, sites in self.sites.items():
            for cs in sites:
                if cs.kind not in ("call", "ctor") or not isinstance(cs.node, ast.Call):
                    continue
                for tgt in cs.targets:
                    a = tgt.node.args
                    names = [x.arg for x in a.posonlyargs + a.args]
                    offset = 0
                    if tgt.cls is not None and tgt.parent is None and not tgt.is_static:
                        offset = 1 if cs.kind == "ctor" or cs.method is not None or tgt.is_classmethod else 0
                        if cs.kind == "call" and cs.method is None and not tgt.is_classmethod:
                            offset = 1 if tgt.name == "__call__" or tgt.name == "__init__" else 0
                    for i, arg in enumerate(cs.node.args):
                        if isinstance(arg, ast.Starred):
                            break
                        j = i + offset
                        if j < len(names):
                            acc.setdefault((tgt.qualname, names[j]), []).append(self.type_of(arg, cs.caller))
                    kwnames = names + [x.arg for x in a.kwonlyargs]
                    for kw in cs.node.keywords:
                        if kw.arg and kw.arg in kwnames:
                            acc.setdefault((tgt.qualname, kw.arg), []).append(self.type_of(kw.value, cs.caller))
        for key, ts in acc.items():
            fi = self.prog.functions.get(key[0])
            if fi is None:
                continue
            # only for unannotated parameters
            a = fi.node.args
            p = next((x for x in a.posonlyargs + a.args + a.kwonlyargs if x.arg == key[1]), None)
            if p is None:
                continue
            if p.annotation is not None:
                at = self.ann_type(p.annotation, fi.module)
                if not (at is None or (at[0] == "ext" and at[1].endswith("Callable"))):
                    continue
            t = union(ts)
            if t is not None and self.param_types.get(key) != t:
                old = self.param_types.get(key)
                new = union([old, t])
                if new != old:
                    self.param_types[key] = new
                    changed = True
        return changed

    def _sites_of(self, f: FuncInfo) -> list[CallSite]:
        out: list[CallSite] = []
        store_attrs = set()
        for n in body_walk(f.node):
            if isinstance(n, (ast.Assign, ast.AugAssign, ast.AnnAssign)):
                tgts = n.targets if isinstance(n, ast.Assign) else [n.target]
                for t in tgts:
                    if isinstance(t, ast.Attribute):
                        store_attrs.add(id(t))
        for n in body_walk(f.node):
            if isinstance(n, ast.Call):
                out.append(self._resolve_call(n, f))
            elif isinstance(n, ast.Attribute) and isinstance(n.ctx, ast.Load):
                bt = self.type_of(n.value, f)
                targets = []
                for t in members(bt):
                    if t[0] == "inst":
                        ci = self.prog.classes.get(t[1])
                        m = self.prog.lookup_method(ci, n.attr) if ci else None
                        if m is not None and m.is_property:
                            for x in self.dispatch(ci, n.attr):
                                if x.is_property and x not in targets:
                                    targets.append(x)
                if targets:
                    out.append(CallSite(f, n, "property", targets=targets, method=n.attr, recv_type=bt))
            elif isinstance(n, ast.Compare):
                out.extend(self._dunder_compare(n, f))
        return out

    def _dunder_compare(self, n: ast.Compare, f: FuncInfo) -> list[CallSite]:
        opmap = {ast.Lt: "__lt__", ast.Gt: "__lt__", ast.LtE: "__lt__", ast.GtE: "__lt__", ast.Eq: "__eq__", ast.NotEq: "__eq__", ast.In: "__eq__", ast.NotIn: "__eq__"}
        out = []
        operands = [n.left] + list(n.comparators)
        for i, op in enumerate(n.ops):
            name = opmap.get(type(op))
            if name is None:
                continue
            l, r = operands[i], operands[i + 1]
            lt = self.type_of(l, f)
            rt = self.type_of(r, f)
            if isinstance(op, (ast.In, ast.NotIn)):
                lt, rt = lt, self.elem_type(rt)
            for t in members(lt) + members(rt):
                if t[0] == "inst":
                    ci = self.prog.classes.get(t[1])
                    tg = self.dispatch(ci, name)
                    if tg:
                        extra = self.dispatch(ci, "__eq__") if name == "__lt__" and isinstance(op, (ast.LtE, ast.GtE, ast.Gt)) else []
                        out.append(CallSite(f, n, "dunder", targets=list(dict.fromkeys(tg + extra)), method=name, recv_type=t))
                        break
        return out

    def _resolve_call(self, n: ast.Call, f: FuncInfo) -> CallSite:
        fn = n.func
        cs = CallSite(f, n, "call")
        if isinstance(fn, ast.Attribute):
            cs.method = fn.attr
        if isinstance(fn, ast.Name) and fn.id not in self.env(f) and self.prog.resolve_name(fn.id, f.module) is None:
            if fn.id in BUILTIN_NAMES:
                cs.external = "builtins." + fn.id
                # builtin dispatch on repo objects: max/min/sorted over individuals
                if fn.id in ("max", "min", "sorted", "sum", "any", "all", "list", "len", "str", "repr", "bool"):
                    et = None
                    if n.args:
                        at = self.type_of(n.args[0], f)
                        et = self.elem_type(at) if len(n.args) == 1 or fn.id == "sorted" else union([self.type_of(a, f) for a in n.args])
                        if fn.id in ("str", "repr", "len", "bool"):
                            et = at
                    dn = {"max": ["__lt__", "__eq__"], "min": ["__lt__", "__eq__"], "sorted": ["__lt__"], "str": ["__str__"], "repr": ["__repr__"], "len": ["__len__"], "bool": ["__bool__", "__len__"]}.get(fn.id, [])
                    has_key = any(kw.arg == "key" for kw in n.keywords)
                    for t in members(et):
                        if t[0] == "inst" and not has_key:
                            ci = self.prog.classes.get(t[1])
                            for name in dn:
                                for x in self.dispatch(ci, name):
                                    if x not in cs.targets:
                                        cs.targets.append(x)
                return cs
            cs.unresolved = True
            return cs
        ft = self.type_of(fn, f)
        cs.recv_type = ft
        if ft is None:
            # name-only fallback (class hierarchy analysis on the attribute name)
            if isinstance(fn, ast.Attribute):
                cands = []
                for ci in self.prog.classes.values():
                    if fn.attr in ci.methods:
                        cands.append(ci.methods[fn.attr])
                # a candidate whose signature cannot take this call's arguments is not a target (the call would raise)
                if isinstance(n, ast.Call) and not any(isinstance(a, ast.Starred) for a in n.args) and not any(k.arg is None for k in n.keywords):
                    def accepts(m):
                        a = m.node.args
                        decos = {norm(d) for d in m.node.decorator_list}
                        pos = [x.arg for x in a.posonlyargs + a.args]
                        if "staticmethod" not in decos and pos:
                            pos = pos[1:]
                        if len(n.args) > len(pos) and a.vararg is None:
                            return False
                        names = set(pos) | {x.arg for x in a.kwonlyargs}
                        if any(k.arg not in names for k in n.keywords) and a.kwarg is None:
                            return False
                        required = pos[: len(pos) - len(a.defaults)] if a.defaults else pos
                        given = set(pos[: len(n.args)]) | {k.arg for k in n.keywords}
                        return all(r in given for r in required)
                    narrowed = [m for m in cands if accepts(m)]
                    if narrowed:
                        cands = narrowed
                if cands:
                    cs.targets = cands
                    cs.cha = True
                    return cs
            cs.unresolved = True
            return cs
        for t in members(ft):
            if t[0] == "cls":
                ci = self.prog.classes.get(t[1])
                init = self.prog.lookup_method(ci, "__init__") if ci else None
                cs.kind = "ctor"
                if init is not None and init not in cs.targets:
                    cs.targets.append(init)
                post = self.prog.lookup_method(ci, "__post_init__") if ci else None
                if post is not None:
                    cs.targets.append(post)
                if init is None:
                    cs.external = cs.external or "builtins.object.__init__"
                # a class object that is not named literally may be any subclass
                literal = isinstance(fn, (ast.Name, ast.Attribute)) and any(
                    x[0] == "cls" and x[1] == t[1] for x in members(self._literal_class(fn, f))
                )
                if not literal and ci is not None:
                    for sc in self.prog.subclasses(ci):
                        for nm in ("__init__", "__post_init__"):
                            if nm in sc.methods and sc.methods[nm] not in cs.targets:
                                cs.targets.append(sc.methods[nm])
            elif t[0] == "func":
                fi = self.prog.functions.get(t[1])
                if fi is not None and fi not in cs.targets:
                    cs.targets.append(fi)
            elif t[0] == "bound":
                fi = self.prog.functions.get(t[1])
                recv = self.prog.classes.get(t[2])
                if fi is None:
                    continue
                is_super = isinstance(fn, ast.Attribute) and isinstance(fn.value, ast.Call) and norm(fn.value.func) == "super"
                is_cls_recv = isinstance(fn, ast.Attribute) and any(x[0] == "cls" for x in members(self.type_of(fn.value, f)))
                if is_super or fi.is_static or (is_cls_recv and not fi.is_classmethod):
                    cands = [fi]
                else:
                    cands = self.dispatch(recv, fi.name) or [fi]
                for c in cands:
                    if c not in cs.targets:
                        cs.targets.append(c)
            elif t[0] == "inst":
                ci = self.prog.classes.get(t[1])
                tg = self.dispatch(ci, "__call__")
                for c in tg:
                    if c not in cs.targets:
                        cs.targets.append(c)
                if not tg:
                    cs.unresolved = True
            elif t[0] == "extfn":
                cs.external = t[1]
            elif t[0] == "extattr":
                cs.external = f"{t[1]}.{t[2]}"
            elif t[0] == "contmeth":
                cs.external = f"builtins.{t[1][0]}.{t[2]}"
            elif t[0] == "ext":
                cs.external = t[1] + ".__call__"
            else:
                cs.unresolved = True
        if not cs.targets and cs.external is None:
            cs.unresolved = True
        return cs

    def _literal_class(self, fn, f):
        """Type of fn if it is a direct reference to a class by (imported) name, else None."""
        if isinstance(fn, ast.Name):
            if fn.id in self.env(f) and self.env(f)[fn.id] is not None and fn.id in f.params():
                return None
            r = self.prog.resolve_name(fn.id, f.module)
            return self._sym_type(r) if r is not None else None
        if isinstance(fn, ast.Attribute):
            d = self.prog.dotted(fn, f.module)
            if d in self.prog.classes:
                return ("cls", d)
        return None

    # ---------------------------------------------------------------- queries
    def callsites(self, f: FuncInfo) -> list[CallSite]:
        return self.sites.get(f.qualname, [])

    def callers_of(self, target: FuncInfo) -> list[CallSite]:
        out = []
        for sites in self.sites.values():
            for cs in sites:
                if target in cs.targets:
                    out.append(cs)
        return out

    def stats(self) -> dict:
        tot = res = ext = unres = cha = 0
        for sites in self.sites.values():
            for cs in sites:
                if cs.kind not in ("call", "ctor"):
                    continue
                tot += 1
                if cs.cha:
                    cha += 1
                elif cs.targets:
                    res += 1
                elif cs.external:
                    ext += 1
                else:
                    unres += 1
        return {"call_sites": tot, "resolved_internal": res, "external": ext, "cha_fallback": cha, "unresolved": unres}
