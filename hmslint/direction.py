"""Direction (maximise / minimise) discipline: value kinds, order-sensitive sinks, maximize switches,
polarity tokens and duality of switch arms."""
from __future__ import annotations

import ast
from dataclasses import dataclass, field

from .core import Ctx, canon, local_defs, parents_map
from .model import FuncInfo, body_walk, norm

NP_ORDER_FUNCS = {"argsort", "argmin", "argmax", "min", "max", "amin", "amax", "sort", "nanmin", "nanmax", "nanargmin", "nanargmax", "argpartition", "partition", "minimum", "maximum"}
PY_ORDER_FUNCS = {"min", "max", "sorted"}
DIRECTION_FREE_FUNCS = {"abs", "isnan", "isinf", "isfinite", "isclose", "allclose", "array_equal", "mean", "sum", "std", "var", "len", "float", "array", "asarray", "copy", "concatenate", "where", "nan_to_num", "format", "str", "round"}


# ------------------------------------------------------------------ value kinds
class Kinds:
    """Flow-insensitive fitness-kind classification inside one function."""

    def __init__(self, ctx: Ctx, f: FuncInfo) -> None:
        self.ctx = ctx
        self.f = f
        self.defs = local_defs(f)
        self.fit_names: set[str] = set()
        for p in f.params():
            if "fitness" in p.lower():
                self.fit_names.add(p)
        # comprehension / loop variables bound over fitness collections
        changed = True
        rounds = 0
        while changed and rounds < 6:
            changed = False
            rounds += 1
            for name, ds in self.defs.items():
                if name in self.fit_names:
                    continue
                vals = [d.value if isinstance(d, ast.AugAssign) else d for d in ds]
                if vals and all(self.is_fitness(v) for v in vals):
                    self.fit_names.add(name)
                    changed = True
            for n in body_walk(f.node):
                tgt = it = None
                if isinstance(n, (ast.For, ast.comprehension)):
                    tgt, it = n.target, n.iter
                if tgt is not None and isinstance(tgt, ast.Name) and tgt.id not in self.fit_names and self.is_fitness(it):
                    self.fit_names.add(tgt.id)
                    changed = True
                if tgt is not None and isinstance(tgt, ast.Tuple) and isinstance(it, ast.Call) and norm(it.func) == "zip":
                    for el, src in zip(tgt.elts, it.args):
                        if isinstance(el, ast.Name) and el.id not in self.fit_names and self.is_fitness(src):
                            self.fit_names.add(el.id)
                            changed = True

    def is_fitness(self, e: ast.AST | None, depth: int = 0) -> bool:
        if e is None or depth > 8:
            return False
        d = depth + 1
        if isinstance(e, ast.Attribute):
            return e.attr in ("fitness", "fitnesses")
        if isinstance(e, ast.Name):
            return e.id in self.fit_names
        if isinstance(e, ast.Subscript):
            return self.is_fitness(e.value, d)
        if isinstance(e, ast.UnaryOp) and isinstance(e.op, (ast.USub, ast.UAdd)):
            return self.is_fitness(e.operand, d)
        if isinstance(e, ast.BinOp):
            if isinstance(e.op, (ast.Mult, ast.Div)):
                return self.is_fitness(e.left, d) or self.is_fitness(e.right, d)
            if isinstance(e.op, (ast.Add, ast.Sub)):
                return self.is_fitness(e.left, d) or self.is_fitness(e.right, d)
            return False
        if isinstance(e, (ast.ListComp, ast.GeneratorExp)):
            return self.is_fitness(e.elt, d) or self._elt_fitness_via_gen(e)
        if isinstance(e, (ast.List, ast.Tuple)):
            return bool(e.elts) and all(self.is_fitness(x, d) for x in e.elts)
        if isinstance(e, ast.IfExp):
            return self.is_fitness(e.body, d) or self.is_fitness(e.orelse, d)
        if isinstance(e, ast.NamedExpr):
            return self.is_fitness(e.value, d)
        if isinstance(e, ast.Call):
            fn = norm(e.func)
            last = fn.split(".")[-1]
            if last == "evaluate" and isinstance(e.func, ast.Attribute) and ("problem" in norm(e.func.value).lower() or norm(e.func.value).endswith("_inner") or norm(e.func.value) == "super()"):
                return True
            if last in ("array", "asarray", "copy", "float", "concatenate", "nan_to_num", "mean") and e.args:
                return self.is_fitness(e.args[0], d)
            if last == "where" and len(e.args) == 3:
                return self.is_fitness(e.args[1], d) or self.is_fitness(e.args[2], d)
        return False

    def _elt_fitness_via_gen(self, comp) -> bool:
        # [f for f in fitness_collection]
        for g in comp.generators:
            if isinstance(g.target, ast.Name) and isinstance(comp.elt, ast.Name) and comp.elt.id == g.target.id and self.is_fitness(g.iter):
                return True
        return False


# ------------------------------------------------------------------ switches
@dataclass
class Switch:
    f: FuncInfo
    node: ast.AST  # IfExp or If
    max_arm: list  # list of stmts or [expr]
    min_arm: list
    is_expr: bool
    test: ast.AST

    @property
    def where(self) -> str:
        return f"{self.f.module.relpath}:{self.node.lineno}"


def _reads_maximize(test: ast.AST) -> int:
    """+1: true when maximising; -1: true when minimising; 0: does not test the direction."""
    t = test
    neg = 1
    while isinstance(t, ast.UnaryOp) and isinstance(t.op, ast.Not):
        t = t.operand
        neg = -neg
    if isinstance(t, ast.Attribute) and t.attr in ("maximize", "_maximize"):
        # `self._maximize`: the direction kept by an object; that it IS the problem's direction is R13.8's obligation
        return neg
    if isinstance(t, ast.Name) and t.id in ("maximize", "is_maximize", "maximise"):
        return neg
    if isinstance(t, ast.Name) and t.id in ("minimize", "minimise"):
        return -neg
    if isinstance(t, ast.Attribute) and t.attr in ("minimize",):
        return -neg
    if isinstance(t, ast.Compare) and len(t.ops) == 1 and isinstance(t.comparators[0], ast.Constant) and isinstance(t.comparators[0].value, bool):
        inner = _reads_maximize(t.left)
        if inner:
            pos = isinstance(t.ops[0], (ast.Is, ast.Eq))
            return neg * inner * (1 if (t.comparators[0].value == pos) else -1)
    return 0


def find_switches(ctx: Ctx) -> list[Switch]:
    out = []
    for f in ctx.prog.all_functions():
        if f.name == "<module>":
            continue
        # locals holding the direction: `minimize = not problem.maximize`
        defs = local_defs(f)
        dir_locals = {}
        for name, ds in defs.items():
            pols = [_reads_maximize(d) for d in ds if not isinstance(d, ast.AugAssign)]
            if pols and all(p != 0 for p in pols) and len(set(pols)) == 1:
                dir_locals[name] = pols[0]

        def pol_of(test):
            p = _reads_maximize(test)
            if p:
                return p
            t = test
            neg = 1
            while isinstance(t, ast.UnaryOp) and isinstance(t.op, ast.Not):
                t = t.operand
                neg = -neg
            if isinstance(t, ast.Name) and t.id in dir_locals:
                return neg * dir_locals[t.id]
            return 0

        for n in body_walk(f.node):
            if isinstance(n, ast.IfExp):
                p = pol_of(n.test)
                if p:
                    a, b = ([n.body], [n.orelse]) if p == 1 else ([n.orelse], [n.body])
                    out.append(Switch(f, n, a, b, True, n.test))
            elif isinstance(n, ast.If):
                p = pol_of(n.test)
                if p:
                    a, b = (n.body, n.orelse) if p == 1 else (n.orelse, n.body)
                    out.append(Switch(f, n, a, b, False, n.test))
        f._dir_locals = dir_locals
    return out


# ------------------------------------------------------------------ polarity tokens
def token(e: ast.AST, kinds: Kinds | None = None) -> tuple:
    """Polarity token of a switch arm (expression or single return/assign statement):
    ("SEL", "LARGE"|"SMALL", operand) best-selector; ("FIRST", "LARGE"|"SMALL", operand) ordering whose front is large/small;
    ("CMP", op, left, right); ("SENT", +1|-1); ("SIGN", +1|-1); ("ID",) identity / ("OTHER", text)."""
    if isinstance(e, list):
        body = [s for s in e if not (isinstance(s, ast.Expr) and isinstance(s.value, ast.Constant))]
        if len(body) != 1:
            return ("OTHER", "|".join(norm(s) for s in body))
        s = body[0]
        if isinstance(s, ast.Return):
            return token(s.value, kinds)
        if isinstance(s, ast.Assign):
            return ("ASSIGN", norm(s.targets[0]), token(s.value, kinds))
        if isinstance(s, ast.Expr):
            return token(s.value, kinds)
        if isinstance(s, ast.expr):
            return token(s, kinds)
        return ("OTHER", norm(s))
    if isinstance(e, ast.expr) and not isinstance(e, (ast.Call, ast.Compare, ast.Subscript, ast.UnaryOp, ast.Constant, ast.Attribute, ast.Name, ast.Lambda, ast.BinOp)):
        return ("OTHER", norm(e))
    # sentinels / signs
    from .rules.wrappers import inf_sign

    s = inf_sign(e)
    if s:
        return ("SENT", s)
    if isinstance(e, ast.Constant) and isinstance(e.value, (int, float)) and not isinstance(e.value, bool) and abs(e.value) == 1:
        return ("SIGN", 1 if e.value > 0 else -1)
    if isinstance(e, ast.UnaryOp) and isinstance(e.op, ast.USub) and isinstance(e.operand, ast.Constant) and isinstance(e.operand.value, (int, float)) and e.operand.value == 1:
        return ("SIGN", -1)
    if isinstance(e, ast.Compare) and len(e.ops) == 1:
        op = {ast.Lt: "<", ast.Gt: ">", ast.LtE: "<=", ast.GtE: ">="}.get(type(e.ops[0]))
        if op:
            return ("CMP", op, canon(e.left), canon(e.comparators[0]))
    if isinstance(e, ast.Call):
        fn = norm(e.func)
        last = fn.split(".")[-1]
        if last in ("argmax", "max", "amax", "nanmax", "nanargmax", "maximum"):
            return ("SEL", "LARGE", _operands(e))
        if last in ("argmin", "min", "amin", "nanmin", "nanargmin", "minimum"):
            return ("SEL", "SMALL", _operands(e))
        if last in ("argsort", "sort", "sorted"):
            arg = e.args[0] if e.args else (e.func.value if isinstance(e.func, ast.Attribute) else None)
            neg = _negated(arg)
            rev = next((k.value for k in e.keywords if k.arg == "reverse"), None)
            first = "SMALL"
            if neg:
                first = "LARGE"
            if rev is not None and isinstance(rev, ast.Constant) and rev.value is True:
                first = "LARGE" if first == "SMALL" else "SMALL"
            return ("FIRST", first, canon(_strip_neg(arg)) if arg is not None else "")
    if isinstance(e, ast.Subscript) and isinstance(e.slice, ast.Slice):
        inner = token(e.value, kinds)
        if inner[0] == "FIRST":
            sl = e.slice
            if sl.lower is None and sl.upper is not None and sl.step is None:
                return ("SEL", inner[1], (inner[2], "k=" + canon(sl.upper)))
            if sl.upper is None and sl.lower is not None and sl.step is None and isinstance(sl.lower, ast.UnaryOp) and isinstance(sl.lower.op, ast.USub):
                return ("SEL", "LARGE" if inner[1] == "SMALL" else "SMALL", (inner[2], "k=" + canon(sl.lower.operand)))
    if isinstance(e, ast.Lambda):
        if isinstance(e.body, ast.Name) and len(e.args.args) == 1 and e.body.id == e.args.args[0].arg:
            return ("ID",)
        return ("OTHER", norm(e))
    return ("OTHER", canon(e))


def _operands(call: ast.Call):
    args = [canon(_strip_neg(a)) for a in call.args] + [f"{k.arg}={canon(k.value)}" for k in call.keywords]
    if isinstance(call.func, ast.Attribute) and not norm(call.func.value).split(".")[0] in ("np", "numpy"):
        args = [canon(call.func.value)] + args
    return tuple(args)


def _negated(e) -> bool:
    if isinstance(e, ast.UnaryOp) and isinstance(e.op, ast.USub):
        return not _negated(e.operand)
    if isinstance(e, ast.BinOp) and isinstance(e.op, ast.Mult):
        for a, b in ((e.left, e.right), (e.right, e.left)):
            if (isinstance(a, ast.UnaryOp) and isinstance(a.op, ast.USub) and isinstance(a.operand, ast.Constant)) or (isinstance(a, ast.Constant) and isinstance(a.value, (int, float)) and a.value < 0):
                return not _negated(b)
    return False


def _strip_neg(e):
    if isinstance(e, ast.UnaryOp) and isinstance(e.op, ast.USub):
        return _strip_neg(e.operand)
    if isinstance(e, ast.BinOp) and isinstance(e.op, ast.Mult):
        for a, b in ((e.left, e.right), (e.right, e.left)):
            if (isinstance(a, ast.UnaryOp) and isinstance(a.op, ast.USub) and isinstance(a.operand, ast.Constant)) or (isinstance(a, ast.Constant) and isinstance(a.value, (int, float))):
                return _strip_neg(b)
    return e


DUAL_CMP = {"<": ">", ">": "<", "<=": ">=", ">=": "<="}


def dual(tok: tuple) -> tuple:
    k = tok[0]
    if k == "SEL":
        return ("SEL", "SMALL" if tok[1] == "LARGE" else "LARGE", tok[2])
    if k == "FIRST":
        return ("FIRST", "SMALL" if tok[1] == "LARGE" else "LARGE", tok[2])
    if k == "CMP":
        return ("CMP", DUAL_CMP[tok[1]], tok[2], tok[3])
    if k == "SENT":
        return ("SENT", -tok[1])
    if k == "SIGN":
        return ("SIGN", -tok[1])
    if k == "ASSIGN":
        return ("ASSIGN", tok[1], dual(tok[2]))
    return tok


def polarity(tok: tuple) -> str:
    """Coarse polarity of the maximise arm: what it favours / denotes."""
    k = tok[0]
    if k in ("SEL", "FIRST"):
        return tok[1]
    if k == "CMP":
        return {">=": "GE", "<=": "LE", ">": "GT", "<": "LT"}[tok[1]]
    if k == "SENT":
        return "LARGEST" if tok[1] > 0 else "SMALLEST"
    if k == "SIGN":
        return "POS" if tok[1] > 0 else "NEG"
    if k == "ASSIGN":
        return polarity(tok[2])
    return "OTHER"
