"""Program model of /repo/pyhms built from source text only (ast): modules, imports,
classes with repo-internal MRO, functions/methods, properties, attribute types.

Nothing under the analysed tree is imported or executed.
"""
from __future__ import annotations

import ast
import hashlib
import os
import pathlib
from dataclasses import dataclass, field


class AnalysisError(Exception):
    """The analyser cannot decide (vanished anchor, unparsable file, ...)."""


class Inconclusive(Exception):
    """A rule-critical construct has a form the analyser does not understand."""


def norm(node: ast.AST | None) -> str:
    """Normalised source text of a node (independent of layout and comments)."""
    if node is None:
        return ""
    return ast.unparse(node)


@dataclass
class FuncInfo:
    name: str
    qualname: str  # e.g. pyhms.tree.DemeTree.run  / pyhms.initializers.sample_normal.create
    node: ast.FunctionDef
    module: "Module"
    cls: "ClassInfo | None" = None
    parent: "FuncInfo | None" = None  # enclosing function for nested defs
    is_property: bool = False
    is_setter: bool = False
    is_static: bool = False
    is_classmethod: bool = False
    is_abstract: bool = False
    nested: dict[str, "FuncInfo"] = field(default_factory=dict)

    @property
    def short(self) -> str:
        return (self.cls.name + "." if self.cls else "") + (
            self.parent.name + "." if self.parent else ""
        ) + self.name

    @property
    def loc(self) -> str:
        return f"{self.module.relpath}:{self.node.lineno}"

    def params(self) -> list[str]:
        a = self.node.args
        return [x.arg for x in a.posonlyargs + a.args + a.kwonlyargs]

    def self_name(self) -> str | None:
        if self.cls is None or self.is_static:
            return None
        ps = self.params()
        return ps[0] if ps else None

    def __hash__(self) -> int:
        return hash(self.qualname)

    def __eq__(self, other) -> bool:
        return isinstance(other, FuncInfo) and other.qualname == self.qualname

    def __repr__(self) -> str:
        return f"<F {self.qualname}>"


@dataclass
class ClassInfo:
    name: str
    qualname: str
    node: ast.ClassDef
    module: "Module"
    base_exprs: list[ast.expr] = field(default_factory=list)
    bases: list["ClassInfo"] = field(default_factory=list)
    ext_bases: list[str] = field(default_factory=list)
    methods: dict[str, FuncInfo] = field(default_factory=dict)
    class_attrs: dict[str, ast.AST] = field(default_factory=dict)
    decorators: list[str] = field(default_factory=list)

    @property
    def loc(self) -> str:
        return f"{self.module.relpath}:{self.node.lineno}"

    def __hash__(self) -> int:
        return hash(self.qualname)

    def __eq__(self, other) -> bool:
        return isinstance(other, ClassInfo) and other.qualname == self.qualname

    def __repr__(self) -> str:
        return f"<C {self.qualname}>"


@dataclass
class Module:
    name: str
    path: pathlib.Path
    relpath: str
    source: str
    tree: ast.Module
    # alias -> ("module", qualified module name) | ("symbol", module name, symbol)
    imports: dict[str, tuple] = field(default_factory=dict)
    functions: dict[str, FuncInfo] = field(default_factory=dict)
    classes: dict[str, ClassInfo] = field(default_factory=dict)
    globals_: dict[str, ast.AST] = field(default_factory=dict)

    def __repr__(self) -> str:
        return f"<M {self.name}>"


def _decorator_names(node) -> list[str]:
    out = []
    for d in node.decorator_list:
        if isinstance(d, ast.Call):
            d = d.func
        out.append(norm(d))
    return out


def _number_nodes(tree: ast.AST) -> None:
    """node._ord = position in a depth-first walk of the (normalised) tree: an execution-order proxy inside straight-line
    code that, unlike lineno, is also right for code the normaliser moved (inlined helpers keep their own line numbers)."""
    counter = 0
    stack = [tree]
    while stack:
        n = stack.pop()
        n._ord = counter
        counter += 1
        stack.extend(reversed(list(ast.iter_child_nodes(n))))


def _foreign_overrides(path: str, class_bases: dict, class_methods: list) -> set:
    """(class name, method name) pairs such that a subclass defined in ANOTHER file redefines the method: a call
    `self.method()` inside the class may dispatch there."""
    def ancestors(c, seen=None):
        seen = seen or set()
        for b in class_bases.get(c, ()):
            if b not in seen:
                seen.add(b)
                ancestors(b, seen)
        return seen

    out = set()
    for pth, cname, meths in class_methods:
        if pth == path:
            continue
        for a in ancestors(cname):
            for m in meths:
                out.add((a, m))
    return out


# read-only accessors of the pinned tree that the rules are anchored on by name (`deme.is_active`, `problem.bounds`, ...): they
# are left as they are; only a view ADDED later for a field the rules know by its private name is read as that field
_PINNED_VIEWS = frozenset({"bounds", "children", "config", "durations", "id", "is_active", "level", "levels", "maximize", "n_evaluations", "started_at"})


def _rule_anchor_names() -> frozenset:
    return _PINNED_VIEWS


class Program:
    """All of pyhms as parsed source."""

    def __init__(self, repo_root: str | os.PathLike, package: str = "pyhms") -> None:
        self.repo_root = pathlib.Path(repo_root)
        self.package = package
        self.modules: dict[str, Module] = {}
        self.classes: dict[str, ClassInfo] = {}  # qualname ->
        self.classes_by_name: dict[str, list[ClassInfo]] = {}
        self.functions: dict[str, FuncInfo] = {}  # qualname -> (all, incl. methods and nested)
        self._mro_cache: dict[str, list[ClassInfo]] = {}
        self._load()
        self._link()
        for m in list(self.modules.values()):
            self.module_func(m)

    # ------------------------------------------------------------------ loading
    def _load(self) -> None:
        pkg_root = self.repo_root / self.package
        if not pkg_root.is_dir():
            raise AnalysisError(f"package directory {pkg_root} not found")
        files = sorted(pkg_root.rglob("*.py"))
        if not files:
            raise AnalysisError(f"no python files under {pkg_root}")
        h = hashlib.sha256()
        # pre-scan: functions that (on every path) return one of their own parameters unchanged, keyed by name; a name defined
        # twice with different behaviour is dropped.  The normaliser uses it to separate `y = f(x)` into `f(x); y = x`.
        returns_arg: dict[str, int | None] = {}
        refs_by_file: dict[str, set[str]] = {}
        defs_by_file: dict[str, set[str]] = {}
        class_bases: dict[str, set[str]] = {}
        class_methods: list = []
        raw_trees: dict = {}
        class_home: dict = {}
        for p in files:
            try:
                raw = ast.parse(p.read_text(), filename=str(p))
            except (SyntaxError, UnicodeDecodeError):
                continue
            raw_trees[str(p)] = raw
            for cd0 in [x for x in raw.body if isinstance(x, ast.ClassDef)]:
                class_home.setdefault(cd0.name, []).append((str(p), cd0))
            defs_by_file[str(p)] = {x.name for x in ast.walk(raw) if isinstance(x, (ast.FunctionDef, ast.AsyncFunctionDef))}
            for cd in [x for x in ast.walk(raw) if isinstance(x, ast.ClassDef)]:
                class_bases.setdefault(cd.name, set()).update(b.id if isinstance(b, ast.Name) else b.attr for b in cd.bases if isinstance(b, (ast.Name, ast.Attribute)))
                class_methods.append((str(p), cd.name, {b.name for b in cd.body if isinstance(b, (ast.FunctionDef, ast.AsyncFunctionDef))}))
            refs_by_file[str(p)] = {x.attr for x in ast.walk(raw) if isinstance(x, ast.Attribute)} | {x.id for x in ast.walk(raw) if isinstance(x, ast.Name)} | {a.name for x in ast.walk(raw) if isinstance(x, ast.ImportFrom) for a in x.names}
            owners = {}
            for par in ast.walk(raw):
                if isinstance(par, ast.ClassDef):
                    for b in par.body:
                        if isinstance(b, ast.FunctionDef):
                            owners[id(b)] = par.name
            for fn in [n for n in ast.walk(raw) if isinstance(n, ast.FunctionDef)]:
                params = [a.arg for a in fn.args.posonlyargs + fn.args.args]
                decos = {norm(d) for d in fn.decorator_list}
                cls_name = owners.get(id(fn))
                skip = 0 if ("staticmethod" in decos or cls_name is None) else 1
                # callable as `Class.f(args)` (static / class methods) or `f(args)` (module functions)
                if cls_name is not None and not ({"staticmethod", "classmethod"} & decos):
                    continue
                key = f"{cls_name}.{fn.name}" if cls_name is not None else fn.name
                rets = [r for r in ast.walk(fn) if isinstance(r, ast.Return)]
                inner_nodes = {id(x) for g in ast.walk(fn) if isinstance(g, (ast.FunctionDef, ast.Lambda)) and g is not fn for x in ast.walk(g)}
                own = [r for r in rets if id(r) not in inner_nodes]
                idx = None
                if own and all(isinstance(r.value, ast.Name) and r.value.id in params[skip:] for r in own) and len({r.value.id for r in own}) == 1:
                    nm = own[0].value.id
                    stored = {x.id for x in ast.walk(fn) if isinstance(x, ast.Name) and isinstance(x.ctx, ast.Store)}
                    falls_off = not isinstance(fn.body[-1], (ast.Return, ast.Raise))
                    if nm not in stored and not falls_off and not any(isinstance(x, (ast.Yield, ast.YieldFrom)) for x in ast.walk(fn)):
                        idx = params.index(nm) - skip
                if key in returns_arg and returns_arg[key] != idx:
                    returns_arg[key] = None
                elif key not in returns_arg:
                    returns_arg[key] = idx
        self.returns_arg = {k: v for k, v in returns_arg.items() if v is not None}
        self._raw_trees, self._class_home = raw_trees, class_home
        # read-only views of a private field that other objects also touch by its private name (`deme.is_hibernating` next to
        # `deme._hibernating = True`): read through the view is read of the field.  Only unambiguous names: one definition (or
        # identical ones), a body that is just `return self.<attr>`, the name never stored to and never defined as anything else.
        views: dict[str, str | None] = {}
        other_defs: set[str] = set()
        stored_names: set[str] = set()
        foreign_private: set[str] = set()
        for raw in raw_trees.values():
            for x in ast.walk(raw):
                if isinstance(x, ast.Attribute):
                    if isinstance(x.ctx, (ast.Store, ast.Del)):
                        stored_names.add(x.attr)
                    if x.attr.startswith("_") and not x.attr.startswith("__") and not (isinstance(x.value, ast.Name) and x.value.id in ("self", "cls")):
                        foreign_private.add(x.attr)
                if isinstance(x, ast.ClassDef):
                    for b in x.body:
                        if isinstance(b, (ast.Assign, ast.AnnAssign)):
                            for t_ in (b.targets if isinstance(b, ast.Assign) else [b.target]):
                                if isinstance(t_, ast.Name):
                                    other_defs.add(t_.id)
                        if not isinstance(b, ast.FunctionDef):
                            continue
                        decos = {norm(d) for d in b.decorator_list}
                        body_ = [y for y in b.body if not (isinstance(y, ast.Expr) and isinstance(y.value, ast.Constant))]
                        selfn_ = b.args.args[0].arg if b.args.args else None
                        if decos == {"property"} and len(body_) == 1 and isinstance(body_[0], ast.Return) and isinstance(body_[0].value, ast.Attribute) and isinstance(body_[0].value.value, ast.Name) and body_[0].value.value.id == selfn_ and body_[0].value.attr.startswith("_"):
                            a_ = body_[0].value.attr
                            views[b.name] = a_ if views.get(b.name, a_) == a_ else None
                        else:
                            other_defs.add(b.name)
        # every name defined as a property / cached_property anywhere (an attribute access that computes)
        self.property_names = {b.name for raw in raw_trees.values() for x in ast.walk(raw) if isinstance(x, ast.ClassDef) for b in x.body if isinstance(b, ast.FunctionDef) and any("property" in norm(d) for d in b.decorator_list)}
        # attribute names that some function other than a constructor stores to (counters, flags, caches): a local copy of
        # such a field taken earlier is NOT interchangeable with a later read of the field
        unstable = set()
        for raw in raw_trees.values():
            for fn_ in ast.walk(raw):
                if isinstance(fn_, (ast.FunctionDef, ast.AsyncFunctionDef)) and fn_.name != "__init__":
                    for x in ast.walk(fn_):
                        if isinstance(x, ast.Attribute) and isinstance(x.ctx, (ast.Store, ast.Del)):
                            unstable.add(x.attr)
        self.property_names = self.property_names | unstable
        self.field_views = {k: v for k, v in views.items() if v is not None and k not in other_defs and k not in stored_names and v in foreign_private and k not in _rule_anchor_names()}
        for p in files:
            rel = p.relative_to(self.repo_root)
            parts = list(rel.with_suffix("").parts)
            if parts[-1] == "__init__":
                parts = parts[:-1]
            name = ".".join(parts)
            try:
                src = p.read_text()
                tree = ast.parse(src, filename=str(p))
            except (SyntaxError, UnicodeDecodeError) as e:
                raise AnalysisError(f"cannot parse {rel}: {e}") from e
            if os.environ.get("HMSLINT_NO_NORMALIZE") != "1":
                from .normalize import normalize_module

                if self.field_views:
                    for x in ast.walk(tree):
                        if isinstance(x, ast.Attribute) and isinstance(x.ctx, ast.Load) and x.attr in self.field_views and not (isinstance(x.value, ast.Name) and x.value.id in ("self", "cls")):
                            x.attr = self.field_views[x.attr]

                try:
                    tree = normalize_module(tree, property_names=self.property_names, inherited=self._inherited_helpers(p, tree), returns_arg=self.returns_arg, foreign_refs=set().union(*[v for k, v in refs_by_file.items() if k != str(p)]) if refs_by_file else set(), foreign_defs=_foreign_overrides(str(p), class_bases, class_methods))
                except RecursionError as e:  # pragma: no cover
                    raise AnalysisError(f"normalisation of {rel} failed: {e}") from e
            _number_nodes(tree)
            h.update(str(rel).encode())
            h.update(src.encode())
            m = Module(name=name, path=p, relpath=str(rel), source=src, tree=tree)
            m.is_package = p.name == "__init__.py"
            self.modules[name] = m
        self.digest = h.hexdigest()
        for m in self.modules.values():
            self._index_module(m)

    def _module_name_of(self, path) -> str:
        rel = pathlib.Path(path).relative_to(self.repo_root)
        parts = list(rel.with_suffix("").parts)
        if parts[-1] == "__init__":
            parts = parts[:-1]
        return ".".join(parts)

    def _inherited_helpers(self, path, tree) -> dict:
        """{(subclass name, helper name): (FunctionDef copy, [import statements its free names need])} for private helpers
        that classes of this module inherit from base classes defined in OTHER modules (uniquely named)."""
        import builtins
        import copy

        out = {}
        here = {c.name: c for c in tree.body if isinstance(c, ast.ClassDef)}
        for cname, cd in here.items():
            own = {b.name for b in cd.body if isinstance(b, ast.FunctionDef)}
            todo = [b.id for b in cd.bases if isinstance(b, ast.Name)]
            seen = set()
            shadow = set(own)
            while todo:
                bn = todo.pop(0)
                if bn in seen:
                    continue
                seen.add(bn)
                if bn in here:
                    shadow |= {b.name for b in here[bn].body if isinstance(b, ast.FunctionDef)}
                    todo += [b.id for b in here[bn].bases if isinstance(b, ast.Name)]
                    continue
                homes = self._class_home.get(bn, [])
                if len(homes) != 1 or homes[0][0] == str(path):
                    continue
                hpath, bcd = homes[0]
                hmod = self._module_name_of(hpath)
                htree = self._raw_trees[hpath]
                top = {}
                for st in htree.body:
                    if isinstance(st, ast.ImportFrom):
                        for a in st.names:
                            absmod = st.module or ""
                            if st.level:
                                parts = hmod.split(".")
                                if not hpath.endswith("__init__.py"):
                                    parts = parts[:-1]
                                if st.level > 1:
                                    parts = parts[: len(parts) - (st.level - 1)]
                                absmod = ".".join(parts + ([st.module] if st.module else []))
                            top[a.asname or a.name] = ast.ImportFrom(module=absmod, names=[ast.alias(name=a.name, asname=a.asname)], level=0)
                    elif isinstance(st, ast.Import):
                        for a in st.names:
                            top[a.asname or a.name.split(".")[0]] = ast.Import(names=[ast.alias(name=a.name, asname=a.asname)])
                    elif isinstance(st, (ast.FunctionDef, ast.ClassDef)):
                        top[st.name] = ast.ImportFrom(module=hmod, names=[ast.alias(name=st.name, asname=None)], level=0)
                    elif isinstance(st, (ast.Assign, ast.AnnAssign)):
                        for t in (st.targets if isinstance(st, ast.Assign) else [st.target]):
                            if isinstance(t, ast.Name):
                                top[t.id] = ast.ImportFrom(module=hmod, names=[ast.alias(name=t.id, asname=None)], level=0)
                for b in bcd.body:
                    if isinstance(b, ast.FunctionDef) and b.name.startswith("_") and not b.name.startswith("__") and b.name not in shadow and (cname, b.name) not in out:
                        bound = {a.arg for a in b.args.posonlyargs + b.args.args + b.args.kwonlyargs} | {x.id for x in ast.walk(b) if isinstance(x, ast.Name) and isinstance(x.ctx, ast.Store)}
                        free = {x.id for x in ast.walk(b) if isinstance(x, ast.Name) and isinstance(x.ctx, ast.Load)} - bound - set(dir(builtins))
                        if all(g in top for g in free):
                            out[(cname, b.name)] = (copy.deepcopy(b), [copy.deepcopy(top[g]) for g in sorted(free)], sorted(free))
                shadow |= {b.name for b in bcd.body if isinstance(b, ast.FunctionDef)}
                todo += [b.id for b in bcd.bases if isinstance(b, ast.Name)]
        return out

    def _resolve_relative(self, m: Module, level: int, module: str | None) -> str:
        parts = m.name.split(".")
        if not getattr(m, "is_package", False):
            parts = parts[:-1]
        if level > 1:
            parts = parts[: len(parts) - (level - 1)]
        if module:
            parts = parts + module.split(".")
        return ".".join(parts)

    def _index_imports(self, m: Module, body, into: dict) -> None:
        for n in body:
            if isinstance(n, ast.Import):
                for a in n.names:
                    if a.asname:
                        into[a.asname] = ("module", a.name)
                    else:
                        into[a.name.split(".")[0]] = ("module", a.name.split(".")[0])
            elif isinstance(n, ast.ImportFrom):
                modname = self._resolve_relative(m, n.level, n.module) if n.level else (n.module or "")
                for a in n.names:
                    alias = a.asname or a.name
                    full = modname + "." + a.name
                    if full in self.modules or self._is_module_path(full):
                        into[alias] = ("module", full)
                    else:
                        into[alias] = ("symbol", modname, a.name)
            elif isinstance(n, (ast.If, ast.Try)):
                for sub in ast.iter_child_nodes(n):
                    pass
                # imports under `if TYPE_CHECKING:` etc.
                for fld in ("body", "orelse", "finalbody"):
                    self._index_imports(m, getattr(n, fld, []) or [], into)

    def _is_module_path(self, full: str) -> bool:
        p = self.repo_root.joinpath(*full.split("."))
        return p.with_suffix(".py").exists() or (p / "__init__.py").exists()

    def _index_module(self, m: Module) -> None:
        self._index_imports(m, m.tree.body, m.imports)
        for n in m.tree.body:
            if isinstance(n, (ast.FunctionDef, ast.AsyncFunctionDef)):
                fi = self._make_func(n, m, None, None)
                m.functions[n.name] = fi
            elif isinstance(n, ast.ClassDef):
                ci = ClassInfo(
                    name=n.name,
                    qualname=f"{m.name}.{n.name}",
                    node=n,
                    module=m,
                    base_exprs=list(n.bases),
                    decorators=_decorator_names(n),
                )
                for b in n.body:
                    if isinstance(b, (ast.FunctionDef, ast.AsyncFunctionDef)):
                        fi = self._make_func(b, m, ci, None)
                        if fi.is_setter:
                            ci.methods.setdefault(b.name + ".setter", fi)
                        else:
                            ci.methods[b.name] = fi
                    elif isinstance(b, ast.Assign):
                        for t in b.targets:
                            if isinstance(t, ast.Name):
                                ci.class_attrs[t.id] = b
                    elif isinstance(b, ast.AnnAssign) and isinstance(b.target, ast.Name):
                        ci.class_attrs[b.target.id] = b
                m.classes[n.name] = ci
                self.classes[ci.qualname] = ci
                self.classes_by_name.setdefault(n.name, []).append(ci)
            elif isinstance(n, ast.Assign):
                for t in n.targets:
                    if isinstance(t, ast.Name):
                        m.globals_[t.id] = n
            elif isinstance(n, ast.AnnAssign) and isinstance(n.target, ast.Name):
                m.globals_[n.target.id] = n

    def _make_func(self, n, m: Module, ci: ClassInfo | None, parent: FuncInfo | None) -> FuncInfo:
        decos = _decorator_names(n)
        if parent is not None:
            qn = f"{parent.qualname}.{n.name}"
        elif ci is not None:
            qn = f"{ci.qualname}.{n.name}"
        else:
            qn = f"{m.name}.{n.name}"
        fi = FuncInfo(
            name=n.name,
            qualname=qn,
            node=n,
            module=m,
            cls=ci,
            parent=parent,
            is_property="property" in decos or any(d.endswith("cached_property") for d in decos),
            is_setter=any(d.endswith(".setter") for d in decos),
            is_static="staticmethod" in decos,
            is_classmethod="classmethod" in decos,
            is_abstract=any(d.endswith("abstractmethod") for d in decos),
        )
        if fi.is_setter:
            fi.qualname = qn + ".setter"
        self.functions[fi.qualname] = fi
        # nested function definitions (closures such as sample_normal.create)
        for sub in self._nested_defs(n):
            nf = self._make_func(sub, m, ci, fi)
            fi.nested[sub.name] = nf
        return fi

    @staticmethod
    def _nested_defs(fn):
        out = []

        def walk(node):
            for ch in ast.iter_child_nodes(node):
                if isinstance(ch, (ast.FunctionDef, ast.AsyncFunctionDef)):
                    out.append(ch)
                elif isinstance(ch, (ast.ClassDef, ast.Lambda)):
                    continue
                else:
                    walk(ch)

        walk(fn)
        return out

    # ------------------------------------------------------------------ linking
    def _link(self) -> None:
        for ci in self.classes.values():
            for b in ci.base_exprs:
                r = self.resolve_class_expr(b, ci.module)
                if r is not None:
                    ci.bases.append(r)
                else:
                    ci.ext_bases.append(norm(b))

    def resolve_name(self, name: str, m: Module):
        """Resolve a bare name used in module m to a ClassInfo / FuncInfo / ('module', x) /
        ('external', dotted) / None."""
        if name in m.classes:
            return m.classes[name]
        if name in m.functions:
            return m.functions[name]
        imp = m.imports.get(name)
        if imp is None:
            return None
        if imp[0] == "module":
            return ("module", imp[1])
        _, modname, sym = imp
        return self.resolve_symbol(modname, sym)

    def resolve_symbol(self, modname: str, sym: str, _depth: int = 0):
        if _depth > 8:
            return None
        mod = self.modules.get(modname)
        if mod is None:
            return ("external", f"{modname}.{sym}")
        if sym in mod.classes:
            return mod.classes[sym]
        if sym in mod.functions:
            return mod.functions[sym]
        if sym in mod.imports:
            imp = mod.imports[sym]
            if imp[0] == "module":
                return ("module", imp[1])
            return self.resolve_symbol(imp[1], imp[2], _depth + 1)
        if sym in mod.globals_:
            return ("global", modname, sym)
        return None

    def resolve_class_expr(self, e: ast.expr, m: Module) -> ClassInfo | None:
        if isinstance(e, ast.Name):
            r = self.resolve_name(e.id, m)
            return r if isinstance(r, ClassInfo) else None
        if isinstance(e, ast.Attribute):
            d = self.dotted(e, m)
            if d and d in self.classes:
                return self.classes[d]
        if isinstance(e, ast.Constant) and isinstance(e.value, str):
            nm = e.value.strip()
            if nm in m.classes:
                return m.classes[nm]
            cands = self.classes_by_name.get(nm, [])
            if len(cands) == 1:
                return cands[0]
        return None

    def dotted(self, e: ast.expr, m: Module) -> str | None:
        """Fully qualified dotted name of an expression made of Name/Attribute, resolving the
        root through the module's imports (np.random.rand -> numpy.random.rand)."""
        parts = []
        cur = e
        while isinstance(cur, ast.Attribute):
            parts.append(cur.attr)
            cur = cur.value
        if not isinstance(cur, ast.Name):
            return None
        root = cur.id
        parts.reverse()
        r = self.resolve_name(root, m)
        if r is None:
            return None
        if isinstance(r, tuple):
            if r[0] == "module":
                base = r[1]
            elif r[0] == "external":
                base = r[1]
            else:
                base = f"{r[1]}.{r[2]}"
        elif isinstance(r, (ClassInfo, FuncInfo)):
            base = r.qualname
        else:
            return None
        return ".".join([base] + parts)

    # ------------------------------------------------------------------ class queries
    def mro(self, ci: ClassInfo) -> list[ClassInfo]:
        if ci.qualname in self._mro_cache:
            return self._mro_cache[ci.qualname]
        seen: list[ClassInfo] = []

        def dfs(c: ClassInfo):
            if c in seen:
                return
            seen.append(c)
            for b in c.bases:
                dfs(b)

        dfs(ci)
        self._mro_cache[ci.qualname] = seen
        return seen

    def is_subclass(self, ci: ClassInfo, base: ClassInfo) -> bool:
        return base in self.mro(ci)

    def subclasses(self, base: ClassInfo, strict: bool = True) -> list[ClassInfo]:
        out = [c for c in self.classes.values() if base in self.mro(c) and (not strict or c != base)]
        return sorted(out, key=lambda c: c.qualname)

    def is_abstract_class(self, ci: ClassInfo) -> bool:
        abstract = set()
        for c in reversed(self.mro(ci)):
            for name, f in c.methods.items():
                if f.is_abstract:
                    abstract.add(name)
                else:
                    abstract.discard(name)
        return bool(abstract)

    def lookup_method(self, ci: ClassInfo, name: str, after: ClassInfo | None = None) -> FuncInfo | None:
        mro = self.mro(ci)
        if after is not None and after in mro:
            mro = mro[mro.index(after) + 1 :]
        for c in mro:
            if name in c.methods:
                return c.methods[name]
        return None

    def cls(self, name: str) -> ClassInfo:
        """Unique class by short name; a missing anchor is an analysis error."""
        cands = self.classes_by_name.get(name, [])
        if len(cands) != 1:
            raise AnalysisError(f"anchor class {name!r}: expected exactly one definition, found {len(cands)}")
        return cands[0]

    def cls_opt(self, name: str) -> ClassInfo | None:
        cands = self.classes_by_name.get(name, [])
        return cands[0] if len(cands) == 1 else None

    def method(self, cls_name: str, meth: str) -> FuncInfo:
        ci = self.cls(cls_name)
        f = self.lookup_method(ci, meth)
        if f is None:
            raise AnalysisError(f"anchor method {cls_name}.{meth} not found")
        return f

    def own_method(self, cls_name: str, meth: str) -> FuncInfo:
        ci = self.cls(cls_name)
        if meth not in ci.methods:
            raise AnalysisError(f"anchor method {cls_name}.{meth} not defined in the class itself")
        return ci.methods[meth]

    def func(self, modname: str, name: str) -> FuncInfo:
        m = self.modules.get(modname)
        if m is None or name not in m.functions:
            raise AnalysisError(f"anchor function {modname}.{name} not found")
        return m.functions[name]

    def all_functions(self) -> list[FuncInfo]:
        return sorted(self.functions.values(), key=lambda f: f.qualname)

    def functions_in(self, ci: ClassInfo) -> list[FuncInfo]:
        out = []
        for f in ci.methods.values():
            out.append(f)
            out.extend(self._all_nested(f))
        return out

    def _all_nested(self, f: FuncInfo) -> list[FuncInfo]:
        out = []
        for nf in f.nested.values():
            out.append(nf)
            out.extend(self._all_nested(nf))
        return out

    def module_func(self, m: Module) -> FuncInfo:
        """Pseudo-function holding the statements executed at import time of module m
        (module body and class bodies, without the def bodies)."""
        q = f"{m.name}.<module>"
        if q in self.functions:
            return self.functions[q]
        body = []
        for st in m.tree.body:
            if isinstance(st, ast.ClassDef):
                body.extend(x for x in st.body if not isinstance(x, (ast.FunctionDef, ast.AsyncFunctionDef, ast.ClassDef)))
                for x in st.body:
                    if isinstance(x, (ast.FunctionDef, ast.AsyncFunctionDef)):
                        body.extend(ast.Expr(value=d) for d in x.decorator_list)
                        body.extend(ast.Expr(value=d) for d in x.args.defaults + [k for k in x.args.kw_defaults if k is not None])
            elif isinstance(st, (ast.FunctionDef, ast.AsyncFunctionDef)):
                body.extend(ast.Expr(value=d) for d in st.args.defaults + [k for k in st.args.kw_defaults if k is not None])
            else:
                body.append(st)
        node = ast.FunctionDef(
            name="<module>",
            args=ast.arguments(posonlyargs=[], args=[], vararg=None, kwonlyargs=[], kw_defaults=[], kwarg=None, defaults=[]),
            body=body or [ast.Pass()],
            decorator_list=[],
            returns=None,
            lineno=1,
            col_offset=0,
        )
        fi = FuncInfo(name="<module>", qualname=q, node=node, module=m)
        self.functions[q] = fi
        return fi

    def stats(self) -> dict:
        return {
            "files": len(self.modules),
            "classes": len(self.classes),
            "functions": len(self.functions),
            "lines": sum(m.source.count("\n") + 1 for m in self.modules.values()),
            "digest": self.digest[:16],
        }


def body_walk(fn: ast.AST, include_lambdas: bool = True):
    """All nodes of a function body, not descending into nested defs/classes; lambdas and
    comprehensions are included (they execute in the context of the function, possibly later)."""
    stack = list(ast.iter_child_nodes(fn))
    while stack:
        n = stack.pop()
        if isinstance(n, (ast.FunctionDef, ast.AsyncFunctionDef, ast.ClassDef)):
            continue
        if isinstance(n, ast.Lambda) and not include_lambdas:
            continue
        yield n
        stack.extend(ast.iter_child_nodes(n))
