"""Statement-level control-flow graphs for the constructs pyhms uses.

Conditions are split into atomic decision nodes (short-circuit `and`/`or`/`not`), so
`if (v := gsc(t)) or stop():` has a node for each operand with its own True/False exits.
"""
from __future__ import annotations

import ast
from collections import deque
from typing import Callable, Iterable

from .model import norm


class Node:
    __slots__ = ("id", "kind", "ast", "succ", "pred", "label", "stmt")

    def __init__(self, nid: int, kind: str, a: ast.AST | None = None, stmt: ast.AST | None = None) -> None:
        self.id = nid
        self.kind = kind  # entry exit stmt cond loophead forhead return raise withenter except
        self.ast = a
        self.stmt = stmt if stmt is not None else a  # enclosing statement (for line numbers)
        self.succ: list[tuple["Node", object]] = []
        self.pred: list[tuple["Node", object]] = []
        self.label = norm(a) if a is not None else kind

    @property
    def lineno(self) -> int:
        for a in (self.ast, self.stmt):
            if a is not None and hasattr(a, "lineno"):
                return a.lineno
        return 0

    def __repr__(self) -> str:
        return f"<{self.id}:{self.kind}:{self.label[:50]}>"


class CFG:
    def __init__(self, fn: ast.FunctionDef | ast.Lambda) -> None:
        self.fn = fn
        self.nodes: list[Node] = []
        self.entry = self._new("entry")
        self.exit = self._new("exit")
        self._loops: list[dict] = []
        self.loop_info: list[dict] = []  # {'head': node, 'body_nodes': set(ids), 'stmt': ast}
        body = fn.body if isinstance(fn.body, list) else [ast.Return(value=fn.body)]
        ends = self._block(body, [(self.entry, None)])
        for n, lab in ends:
            self._link(n, self.exit, lab)

    # -- construction ------------------------------------------------------
    def _new(self, kind: str, a: ast.AST | None = None, stmt: ast.AST | None = None) -> Node:
        n = Node(len(self.nodes), kind, a, stmt)
        self.nodes.append(n)
        return n

    @staticmethod
    def _link(a: Node, b: Node, lab=None) -> None:
        a.succ.append((b, lab))
        b.pred.append((a, lab))

    def _join(self, preds, n: Node) -> None:
        for p, lab in preds:
            self._link(p, n, lab)

    def _cond(self, test: ast.expr, preds, stmt):
        """returns (true_exits, false_exits) with short-circuit semantics."""
        if isinstance(test, ast.BoolOp):
            if isinstance(test.op, ast.Or):
                T = []
                cur = preds
                for v in test.values:
                    t, f = self._cond(v, cur, stmt)
                    T += t
                    cur = f
                return T, cur
            F = []
            cur = preds
            for v in test.values:
                t, f = self._cond(v, cur, stmt)
                F += f
                cur = t
            return cur, F
        if isinstance(test, ast.UnaryOp) and isinstance(test.op, ast.Not):
            t, f = self._cond(test.operand, preds, stmt)
            return f, t
        if isinstance(test, ast.Constant) and isinstance(test.value, bool):
            # `while True:` — keep a node so dominance queries still see it, but only one exit
            n = self._new("cond", test, stmt)
            self._join(preds, n)
            return ([(n, True)], []) if test.value else ([], [(n, False)])
        n = self._new("cond", test, stmt)
        self._join(preds, n)
        return [(n, True)], [(n, False)]

    def _block(self, stmts, preds):
        for st in stmts:
            preds = self._stmt(st, preds)
        return preds

    def _stmt(self, st, preds):
        # `x = A if <test with a call> else B` (also return / expression statements): the test is a decision of its own -
        # it may consult a stop condition - so it gets decision nodes and each arm its own statement node
        v = getattr(st, "value", None) if isinstance(st, (ast.Assign, ast.AnnAssign, ast.Return, ast.Expr)) else None
        if isinstance(v, ast.IfExp) and (any(isinstance(x, ast.Call) for x in ast.walk(v.test)) or (isinstance(st, ast.Return) and any(isinstance(x, ast.Call) for arm in (v.body, v.orelse) for x in ast.walk(arm)))):
            import copy as _copy

            t, f = self._cond(v.test, preds, st)
            outs = []
            for arm, ps in ((v.body, t), (v.orelse, f)):
                s2 = _copy.copy(st)
                s2.value = arm
                outs += self._stmt(s2, ps)
            return outs
        if isinstance(st, ast.If):
            t, f = self._cond(st.test, preds, st)
            a = self._block(st.body, t)
            b = self._block(st.orelse, f) if st.orelse else f
            return a + b
        if isinstance(st, ast.While):
            head = self._new("loophead", None, st)
            self._join(preds, head)
            first = len(self.nodes)
            t, f = self._cond(st.test, [(head, None)], st)
            self._loops.append({"head": head, "breaks": [], "conts": []})
            body_end = self._block(st.body, t)
            L = self._loops.pop()
            for p, lab in body_end + L["conts"]:
                self._link(p, head, lab)
            self.loop_info.append(
                {"head": head, "stmt": st, "body_ids": set(range(first, len(self.nodes))) | {head.id}}
            )
            out = f
            if st.orelse:
                out = self._block(st.orelse, f)
            return out + L["breaks"]
        if isinstance(st, (ast.For, ast.AsyncFor)):
            head = self._new("forhead", st.iter, st)
            self._join(preds, head)
            first = len(self.nodes)
            self._loops.append({"head": head, "breaks": [], "conts": []})
            body_end = self._block(st.body, [(head, "iter")])
            L = self._loops.pop()
            for p, lab in body_end + L["conts"]:
                self._link(p, head, lab)
            self.loop_info.append(
                {"head": head, "stmt": st, "body_ids": set(range(first, len(self.nodes))) | {head.id}}
            )
            out = [(head, "done")]
            if st.orelse:
                out = self._block(st.orelse, out)
            return out + L["breaks"]
        if isinstance(st, ast.Return):
            n = self._new("return", st, st)
            self._join(preds, n)
            self._link(n, self.exit, "return")
            return []
        if isinstance(st, ast.Raise):
            n = self._new("raise", st, st)
            self._join(preds, n)
            self._link(n, self.exit, "raise")
            return []
        if isinstance(st, ast.Break):
            self._loops[-1]["breaks"] += preds
            return []
        if isinstance(st, ast.Continue):
            self._loops[-1]["conts"] += preds
            return []
        if isinstance(st, (ast.With, ast.AsyncWith)):
            for item in st.items:
                n = self._new("withenter", item, st)
                self._join(preds, n)
                preds = [(n, None)]
            return self._block(st.body, preds)
        if isinstance(st, ast.Try) or st.__class__.__name__ == "TryStar":
            entry_preds = list(preds)
            body_points = list(preds)
            cur = preds
            for s in st.body:
                cur = self._stmt(s, cur)
                body_points += cur
            normal = cur
            if st.orelse:
                normal = self._block(st.orelse, normal)
            outs = list(normal)
            for h in st.handlers:
                hn = self._new("except", h.type, h)
                # an exception may be raised before/after any statement of the body
                seen = set()
                for p, lab in body_points:
                    if (p.id, lab) not in seen:
                        seen.add((p.id, lab))
                        self._link(p, hn, "exc" if lab is None else lab)
                outs += self._block(h.body, [(hn, None)])
            if st.finalbody:
                outs = self._block(st.finalbody, outs)
            return outs
        if isinstance(st, (ast.FunctionDef, ast.AsyncFunctionDef, ast.ClassDef)):
            n = self._new("def", st, st)
            self._join(preds, n)
            return [(n, None)]
        if isinstance(st, ast.Assert):
            n = self._new("stmt", st, st)
            self._join(preds, n)
            return [(n, None)]
        if isinstance(st, ast.Match):
            n = self._new("stmt", st.subject, st)
            self._join(preds, n)
            outs = []
            for case in st.cases:
                outs += self._block(case.body, [(n, "case")])
            return outs + [(n, "nomatch")]
        n = self._new("stmt", st, st)
        self._join(preds, n)
        return [(n, None)]

    # -- queries -------------------------------------------------------------
    def reachable(self) -> set[int]:
        seen = {self.entry.id}
        q = deque([self.entry])
        while q:
            n = q.popleft()
            for m, _ in n.succ:
                if m.id not in seen:
                    seen.add(m.id)
                    q.append(m)
        return seen

    def dominators(self) -> dict[int, set[int]]:
        reach = self.reachable()
        ids = [n.id for n in self.nodes if n.id in reach]
        dom = {i: set(ids) for i in ids}
        dom[self.entry.id] = {self.entry.id}
        changed = True
        while changed:
            changed = False
            for n in self.nodes:
                if n.id not in reach or n is self.entry:
                    continue
                ps = [p.id for p, _ in n.pred if p.id in reach]
                new = set.intersection(*(dom[p] for p in ps)) if ps else set()
                new = new | {n.id}
                if new != dom[n.id]:
                    dom[n.id] = new
                    changed = True
        return dom

    def postdominators(self) -> dict[int, set[int]]:
        ids = [n.id for n in self.nodes]
        pdom = {i: set(ids) for i in ids}
        pdom[self.exit.id] = {self.exit.id}
        changed = True
        while changed:
            changed = False
            for n in self.nodes:
                if n is self.exit:
                    continue
                ss = [s.id for s, _ in n.succ]
                new = set.intersection(*(pdom[s] for s in ss)) if ss else set()
                new = new | {n.id}
                if new != pdom[n.id]:
                    pdom[n.id] = new
                    changed = True
        return pdom

    def nodes_of(self, pred: Callable[[Node], bool]) -> list[Node]:
        return [n for n in self.nodes if pred(n)]

    def can_reach(self, src: Node, dst: Node, avoid: Callable[[Node], bool] | None = None) -> bool:
        """Is there a path src ->+ dst that avoids nodes satisfying `avoid` (strictly between)?"""
        seen = set()
        q = deque(m for m, _ in src.succ)
        while q:
            n = q.popleft()
            if n.id in seen:
                continue
            seen.add(n.id)
            if n is dst:
                return True
            if avoid is not None and avoid(n):
                continue
            for m, _ in n.succ:
                q.append(m)
        return False

    def find_path(self, src: Node, dst: Node, avoid: Callable[[Node], bool] | None = None) -> list[Node] | None:
        prev: dict[int, Node | None] = {}
        q = deque()
        for m, _ in src.succ:
            if m.id not in prev:
                prev[m.id] = src
                q.append(m)
        while q:
            n = q.popleft()
            if n is dst:
                path = [n]
                cur = n
                while prev.get(cur.id) is not None and prev[cur.id] is not src:
                    cur = prev[cur.id]
                    path.append(cur)
                path.append(src)
                return list(reversed(path))
            if avoid is not None and avoid(n):
                continue
            for m, _ in n.succ:
                if m.id not in prev:
                    prev[m.id] = n
                    q.append(m)
        return None

    def loop_of(self, node: Node) -> dict | None:
        """Innermost loop containing the node."""
        best = None
        for L in self.loop_info:
            if node.id in L["body_ids"]:
                if best is None or len(L["body_ids"]) < len(best["body_ids"]):
                    best = L
        return best


KILL = object()  # returned by an edge function to drop the edge


def _const_kinds(v):
    """What is known about a value expression made of constants: subset of {'T','F','N','NN'} (truthy / falsy / is None /
    is not None) that holds for every value it can take; None if the expression is not made of constants only."""
    if isinstance(v, ast.Constant):
        if v.value is None:
            return {"F", "N"}
        try:
            return {"T" if bool(v.value) else "F", "NN"}
        except Exception:  # pragma: no cover
            return {"NN"}
    if isinstance(v, ast.IfExp):
        a, b = _const_kinds(v.body), _const_kinds(v.orelse)
        return None if a is None or b is None else a & b
    if isinstance(v, ast.JoinedStr):
        return {"NN"}
    return None


def _trackable_flags(fn) -> set[str]:
    """Local names whose truth value / None-ness can be followed along a path.  Either every read is a test (`if x`,
    `x is None`, under not / and / or, in if / while / conditional expression / assert / comprehension filter) or a return,
    or every value ever assigned is an immutable constant (None, True, a string literal, a conditional expression over
    those), in which case the name may be read anywhere.  Every write is a plain `name = value`; no nested function
    mentions the name; it is not a parameter.  Such a name cannot change between two tests other than by an assignment,
    so a test contradicting what the path already established is infeasible."""
    truth = set()

    def mark(e):
        if isinstance(e, ast.Name):
            truth.add(id(e))
        elif isinstance(e, ast.UnaryOp) and isinstance(e.op, ast.Not):
            mark(e.operand)
        elif isinstance(e, ast.BoolOp):
            for v in e.values:
                mark(v)
        elif isinstance(e, ast.Compare) and len(e.ops) == 1 and isinstance(e.ops[0], (ast.Is, ast.IsNot)) and isinstance(e.left, ast.Name) and isinstance(e.comparators[0], ast.Constant) and e.comparators[0].value is None:
            truth.add(id(e.left))
    stores: dict[str, list] = {}
    bad = set()
    for n in ast.walk(fn):
        if isinstance(n, (ast.If, ast.While, ast.IfExp, ast.Assert)):
            mark(n.test)
        elif isinstance(n, ast.comprehension):
            for c in n.ifs:
                mark(c)
        elif isinstance(n, ast.Return) and isinstance(n.value, ast.Name):
            truth.add(id(n.value))
        elif isinstance(n, ast.Assign) and len(n.targets) == 1 and isinstance(n.targets[0], ast.Name):
            stores.setdefault(n.targets[0].id, []).append(n.value)
            truth.add(id(n.targets[0]))
            if isinstance(n.value, ast.BoolOp):
                mark(n.value)  # flag = flag or <expr>
        elif isinstance(n, (ast.FunctionDef, ast.AsyncFunctionDef, ast.Lambda)) and n is not fn:
            bad |= {x.id for x in ast.walk(n) if isinstance(x, ast.Name)}
        elif isinstance(n, (ast.Global, ast.Nonlocal)):
            bad |= set(n.names)
    args = getattr(fn, "args", None)
    if args is not None:
        bad |= {a.arg for a in args.args + args.kwonlyargs + args.posonlyargs}
        if args.vararg:
            bad.add(args.vararg.arg)
        if args.kwarg:
            bad.add(args.kwarg.arg)
    const_flags = {k for k, vs in stores.items() if all(_const_kinds(v) is not None for v in vs)}
    for n in ast.walk(fn):
        if isinstance(n, ast.Name) and id(n) not in truth:
            if isinstance(n.ctx, ast.Load) and n.id in const_flags:
                continue
            bad.add(n.id)
    return {k for k in stores if k not in bad}


_OPPOSITE = {"T": "F", "F": "T", "N": "NN", "NN": "N"}
_IMPLIED = {"T": {"T", "NN"}, "F": {"F"}, "N": {"N", "F"}, "NN": {"NN"}}


class ExitStates(set):
    """States reaching the exit node; `by_label[label]` = those arriving over an edge with that label ('return', 'raise',
    None for falling off the end, True / False for a loop or branch condition that exits)."""

    def __init__(self, *a):
        super().__init__(*a)
        self.by_label: dict = {}

    def normal(self) -> set:
        out = set()
        for lab, ss in self.by_label.items():
            if lab != "raise":
                out |= ss
        return out


def typestate(
    cfg: CFG,
    init: Iterable,
    node_fn: Callable[[Node, object], Iterable],
    edge_fn: Callable[[Node, object, object], object] | None = None,
    max_states: int = 200000,
    track_flags: bool = True,
):
    """Generic forward propagation of finite states.

    node_fn(node, state) -> iterable of states after executing the node (may record violations
    through closures); edge_fn(node, label, state) -> state (or KILL to drop the edge; None is an ordinary state).
    Returns (states_at_node_entry: dict[node_id, set], exit_states: set, trace_parent) where
    trace_parent maps (node_id, state) -> predecessor (node_id, state) for witness paths.

    With track_flags (default) every state is paired internally with what the path knows about the truth value of the
    function's trackable boolean flags (see _trackable_flags): `flag = True / False` and the outcome of `if flag:` are
    remembered until the next assignment, and an edge that contradicts them is dropped as infeasible.  The caller's
    node_fn / edge_fn and the returned tables only ever see the caller's own states.
    """
    flags = _trackable_flags(cfg.fn) if track_flags else set()
    at_w: dict[int, set] = {n.id: set() for n in cfg.nodes}
    at: dict[int, set] = {n.id: set() for n in cfg.nodes}
    parent: dict[tuple, tuple | None] = {}
    q = deque()
    for s in init:
        w = (s, frozenset())
        at_w[cfg.entry.id].add(w)
        at[cfg.entry.id].add(s)
        parent[(cfg.entry.id, s)] = None
        q.append((cfg.entry, w))
    exits = ExitStates()
    count = 0

    def after_node(n, facts):
        if not flags or n.ast is None or n.kind == "cond":
            return facts
        if n.kind == "forhead" and isinstance(n.ast, ast.For):
            stored = {x.id for x in ast.walk(n.ast.target) if isinstance(x, ast.Name)} & flags
        elif n.kind == "def":
            stored = set()
        else:
            stored = {x.id for x in ast.walk(n.ast) if isinstance(x, ast.Name) and isinstance(x.ctx, ast.Store) and x.id in flags}
        if stored:
            facts = frozenset(f for f in facts if f[0] not in stored)
        if n.kind == "stmt" and isinstance(n.ast, ast.Assign) and len(n.ast.targets) == 1 and isinstance(n.ast.targets[0], ast.Name) and n.ast.targets[0].id in flags:
            kinds = _const_kinds(n.ast.value)
            if kinds:
                facts = frozenset(facts | {(n.ast.targets[0].id, k) for k in kinds})
        return facts

    def asserted(n, lab):
        """(name, kind) established by leaving cond node n through `lab`, or None"""
        e = n.ast
        if isinstance(e, ast.Name) and e.id in flags:
            return e.id, ("T" if lab else "F")
        if isinstance(e, ast.Compare) and len(e.ops) == 1 and isinstance(e.ops[0], (ast.Is, ast.IsNot)) and isinstance(e.left, ast.Name) and e.left.id in flags and isinstance(e.comparators[0], ast.Constant) and e.comparators[0].value is None:
            is_none = lab if isinstance(e.ops[0], ast.Is) else (not lab)
            return e.left.id, ("N" if is_none else "NN")
        return None

    def over_edge(n, lab, facts):
        if flags and n.kind == "cond" and lab in (True, False) and n.ast is not None:
            a = asserted(n, lab)
            if a is not None:
                name, kind = a
                have = {k for (nm, k) in facts if nm == name}
                new = _IMPLIED[kind]
                if any(_OPPOSITE[k] in have for k in new):
                    return KILL
                if not new <= have:
                    return frozenset(facts | {(name, k) for k in new})
        return facts

    while q:
        n, w = q.popleft()
        s, facts = w
        count += 1
        if count > max_states:
            raise RuntimeError("typestate: state explosion")
        if n is cfg.exit:
            exits.add(s)
            continue
        facts2 = after_node(n, facts)
        for s2 in node_fn(n, s):
            for m, lab in n.succ:
                f3 = over_edge(n, lab, facts2)
                if f3 is KILL:
                    continue
                s3 = edge_fn(n, lab, s2) if edge_fn else s2
                if s3 is KILL:
                    continue
                w3 = (s3, f3)
                if m is cfg.exit:
                    exits.by_label.setdefault(lab, set()).add(s3)
                if w3 not in at_w[m.id]:
                    at_w[m.id].add(w3)
                    if s3 not in at[m.id]:
                        at[m.id].add(s3)
                        parent[(m.id, s3)] = (n.id, s)
                    q.append((m, w3))
    return at, exits, parent


def witness_path(cfg: CFG, parent: dict, node_id: int, state) -> list[str]:
    out = []
    cur = (node_id, state)
    guard = 0
    while cur is not None and guard < 500:
        guard += 1
        n = cfg.nodes[cur[0]]
        if n.kind not in ("entry",):
            out.append(f"L{n.lineno}:{n.kind}:{n.label[:70]} [{cur[1]}]")
        cur = parent.get(cur)
    return list(reversed(out))


def enumerate_paths(cfg: CFG, max_paths: int = 5000, loop_bound: int = 2):
    """Acyclic-ish path enumeration: every node may appear at most `loop_bound` times per path.
    Yields lists of (node, out_label)."""
    out = []
    stack = [(cfg.entry, [], {})]
    while stack:
        n, path, counts = stack.pop()
        if n is cfg.exit:
            out.append(path)
            if len(out) > max_paths:
                raise RuntimeError("too many paths")
            continue
        c = counts.get(n.id, 0)
        if c >= loop_bound:
            continue
        counts2 = dict(counts)
        counts2[n.id] = c + 1
        for m, lab in n.succ:
            stack.append((m, path + [(n, lab)], counts2))
    return out
