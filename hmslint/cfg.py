"""Statement-level control-flow graphs for the constructs pyhms uses.

Conditions are split into atomic decision nodes (short-circuit `and`/`or`/`not`), so
`if (v := gsc(t)) or stop():` has a node for each operand with its own True/False exits.
"""
from __future__ import annotations

import ast
from collections import deque
from typing import Callable, Iterable

from .model import norm


class Node:
    __slots__ = ("id", "kind", "ast", "succ", "pred", "label", "stmt")

    def __init__(self, nid: int, kind: str, a: ast.AST | None = None, stmt: ast.AST | None = None) -> None:
        self.id = nid
        self.kind = kind  # entry exit stmt cond loophead forhead return raise withenter except
        self.ast = a
        self.stmt = stmt if stmt is not None else a  # enclosing statement (for line numbers)
        self.succ: list[tuple["Node", object]] = []
        self.pred: list[tuple["Node", object]] = []
        self.label = norm(a) if a is not None else kind

    @property
    def lineno(self) -> int:
        for a in (self.ast, self.stmt):
            if a is not None and hasattr(a, "lineno"):
                return a.lineno
        return 0

    def __repr__(self) -> str:
        return f"<{self.id}:{self.kind}:{self.label[:50]}>"


class CFG:
    def __init__(self, fn: ast.FunctionDef | ast.Lambda) -> None:
        self.fn = fn
        self.nodes: list[Node] = []
        self.entry = self._new("entry")
        self.exit = self._new("exit")
        self._loops: list[dict] = []
        self.loop_info: list[dict] = []  # {'head': node, 'body_nodes': set(ids), 'stmt': ast}
        body = fn.body if isinstance(fn.body, list) else [ast.Return(value=fn.body)]
        ends = self._block(body, [(self.entry, None)])
        for n, lab in ends:
            self._link(n, self.exit, lab)

    # -- construction ------------------------------------------------------
    def _new(self, kind: str, a: ast.AST | None = None, stmt: ast.AST | None = None) -> Node:
        n = Node(len(self.nodes), kind, a, stmt)
        self.nodes.append(n)
        return n

    @staticmethod
    def _link(a: Node, b: Node, lab=None) -> None:
        a.succ.append((b, lab))
        b.pred.append((a, lab))

    def _join(self, preds, n: Node) -> None:
        for p, lab in preds:
            self._link(p, n, lab)

    def _cond(self, test: ast.expr, preds, stmt):
        """returns (true_exits, false_exits) with short-circuit semantics."""
        if isinstance(test, ast.BoolOp):
            if isinstance(test.op, ast.Or):
                T = []
                cur = preds
                for v in test.values:
                    t, f = self._cond(v, cur, stmt)
                    T += t
                    cur = f
                return T, cur
            F = []
            cur = preds
            for v in test.values:
                t, f = self._cond(v, cur, stmt)
                F += f
                cur = t
            return cur, F
        if isinstance(test, ast.UnaryOp) and isinstance(test.op, ast.Not):
            t, f = self._cond(test.operand, preds, stmt)
            return f, t
        if isinstance(test, ast.Constant) and isinstance(test.value, bool):
            # `while True:` — keep a node so dominance queries still see it, but only one exit
            n = self._new("cond", test, stmt)
            self._join(preds, n)
            return ([(n, True)], []) if test.value else ([], [(n, False)])
        n = self._new("cond", test, stmt)
        self._join(preds, n)
        return [(n, True)], [(n, False)]

    def _block(self, stmts, preds):
        for st in stmts:
            preds = self._stmt(st, preds)
        return preds

    def _stmt(self, st, preds):
        if isinstance(st, ast.If):
            t, f = self._cond(st.test, preds, st)
            a = self._block(st.body, t)
            b = self._block(st.orelse, f) if st.orelse else f
            return a + b
        if isinstance(st, ast.While):
            head = self._new("loophead", None, st)
            self._join(preds, head)
            first = len(self.nodes)
            t, f = self._cond(st.test, [(head, None)], st)
            self._loops.append({"head": head, "breaks": [], "conts": []})
            body_end = self._block(st.body, t)
            L = self._loops.pop()
            for p, lab in body_end + L["conts"]:
                self._link(p, head, lab)
            self.loop_info.append(
                {"head": head, "stmt": st, "body_ids": set(range(first, len(self.nodes))) | {head.id}}
            )
            out = f
            if st.orelse:
                out = self._block(st.orelse, f)
            return out + L["breaks"]
        if isinstance(st, (ast.For, ast.AsyncFor)):
            head = self._new("forhead", st.iter, st)
            self._join(preds, head)
            first = len(self.nodes)
            self._loops.append({"head": head, "breaks": [], "conts": []})
            body_end = self._block(st.body, [(head, "iter")])
            L = self._loops.pop()
            for p, lab in body_end + L["conts"]:
                self._link(p, head, lab)
            self.loop_info.append(
                {"head": head, "stmt": st, "body_ids": set(range(first, len(self.nodes))) | {head.id}}
            )
            out = [(head, "done")]
            if st.orelse:
                out = self._block(st.orelse, out)
            return out + L["breaks"]
        if isinstance(st, ast.Return):
            n = self._new("return", st, st)
            self._join(preds, n)
            self._link(n, self.exit, "return")
            return []
        if isinstance(st, ast.Raise):
            n = self._new("raise", st, st)
            self._join(preds, n)
            self._link(n, self.exit, "raise")
            return []
        if isinstance(st, ast.Break):
            self._loops[-1]["breaks"] += preds
            return []
        if isinstance(st, ast.Continue):
            self._loops[-1]["conts"] += preds
            return []
        if isinstance(st, (ast.With, ast.AsyncWith)):
            for item in st.items:
                n = self._new("withenter", item, st)
                self._join(preds, n)
                preds = [(n, None)]
            return self._block(st.body, preds)
        if isinstance(st, ast.Try) or st.__class__.__name__ == "TryStar":
            entry_preds = list(preds)
            body_points = list(preds)
            cur = preds
            for s in st.body:
                cur = self._stmt(s, cur)
                body_points += cur
            normal = cur
            if st.orelse:
                normal = self._block(st.orelse, normal)
            outs = list(normal)
            for h in st.handlers:
                hn = self._new("except", h.type, h)
                # an exception may be raised before/after any statement of the body
                seen = set()
                for p, lab in body_points:
                    if (p.id, lab) not in seen:
                        seen.add((p.id, lab))
                        self._link(p, hn, "exc" if lab is None else lab)
                outs += self._block(h.body, [(hn, None)])
            if st.finalbody:
                outs = self._block(st.finalbody, outs)
            return outs
        if isinstance(st, (ast.FunctionDef, ast.AsyncFunctionDef, ast.ClassDef)):
            n = self._new("def", st, st)
            self._join(preds, n)
            return [(n, None)]
        if isinstance(st, ast.Assert):
            n = self._new("stmt", st, st)
            self._join(preds, n)
            return [(n, None)]
        if isinstance(st, ast.Match):
            n = self._new("stmt", st.subject, st)
            self._join(preds, n)
            outs = []
            for case in st.cases:
                outs += self._block(case.body, [(n, "case")])
            return outs + [(n, "nomatch")]
        n = self._new("stmt", st, st)
        self._join(preds, n)
        return [(n, None)]

    # -- queries -------------------------------------------------------------
    def reachable(self) -> set[int]:
        seen = {self.entry.id}
        q = deque([self.entry])
        while q:
            n = q.popleft()
            for m, _ in n.succ:
                if m.id not in seen:
                    seen.add(m.id)
                    q.append(m)
        return seen

    def dominators(self) -> dict[int, set[int]]:
        reach = self.reachable()
        ids = [n.id for n in self.nodes if n.id in reach]
        dom = {i: set(ids) for i in ids}
        dom[self.entry.id] = {self.entry.id}
        changed = True
        while changed:
            changed = False
            for n in self.nodes:
                if n.id not in reach or n is self.entry:
                    continue
                ps = [p.id for p, _ in n.pred if p.id in reach]
                new = set.intersection(*(dom[p] for p in ps)) if ps else set()
                new = new | {n.id}
                if new != dom[n.id]:
                    dom[n.id] = new
                    changed = True
        return dom

    def postdominators(self) -> dict[int, set[int]]:
        ids = [n.id for n in self.nodes]
        pdom = {i: set(ids) for i in ids}
        pdom[self.exit.id] = {self.exit.id}
        changed = True
        while changed:
            changed = False
            for n in self.nodes:
                if n is self.exit:
                    continue
                ss = [s.id for s, _ in n.succ]
                new = set.intersection(*(pdom[s] for s in ss)) if ss else set()
                new = new | {n.id}
                if new != pdom[n.id]:
                    pdom[n.id] = new
                    changed = True
        return pdom

    def nodes_of(self, pred: Callable[[Node], bool]) -> list[Node]:
        return [n for n in self.nodes if pred(n)]

    def can_reach(self, src: Node, dst: Node, avoid: Callable[[Node], bool] | None = None) -> bool:
        """Is there a path src ->+ dst that avoids nodes satisfying `avoid` (strictly between)?"""
        seen = set()
        q = deque(m for m, _ in src.succ)
        while q:
            n = q.popleft()
            if n.id in seen:
                continue
            seen.add(n.id)
            if n is dst:
                return True
            if avoid is not None and avoid(n):
                continue
            for m, _ in n.succ:
                q.append(m)
        return False

    def find_path(self, src: Node, dst: Node, avoid: Callable[[Node], bool] | None = None) -> list[Node] | None:
        prev: dict[int, Node | None] = {}
        q = deque()
        for m, _ in src.succ:
            if m.id not in prev:
                prev[m.id] = src
                q.append(m)
        while q:
            n = q.popleft()
            if n is dst:
                path = [n]
                cur = n
                while prev.get(cur.id) is not None and prev[cur.id] is not src:
                    cur = prev[cur.id]
                    path.append(cur)
                path.append(src)
                return list(reversed(path))
            if avoid is not None and avoid(n):
                continue
            for m, _ in n.succ:
                if m.id not in prev:
                    prev[m.id] = n
                    q.append(m)
        return None

    def loop_of(self, node: Node) -> dict | None:
        """Innermost loop containing the node."""
        best = None
        for L in self.loop_info:
            if node.id in L["body_ids"]:
                if best is None or len(L["body_ids"]) < len(best["body_ids"]):
                    best = L
        return best


KILL = object()  # returned by an edge function to drop the edge


def typestate(
    cfg: CFG,
    init: Iterable,
    node_fn: Callable[[Node, object], Iterable],
    edge_fn: Callable[[Node, object, object], object] | None = None,
    max_states: int = 200000,
):
    """Generic forward propagation of finite states.

    node_fn(node, state) -> iterable of states after executing the node (may record violations
    through closures); edge_fn(node, label, state) -> state (or KILL to drop the edge; None is an ordinary state).
    Returns (states_at_node_entry: dict[node_id, set], exit_states: set, trace_parent) where
    trace_parent maps (node_id, state) -> predecessor (node_id, state) for witness paths.
    """
    at: dict[int, set] = {n.id: set() for n in cfg.nodes}
    parent: dict[tuple, tuple | None] = {}
    q = deque()
    for s in init:
        at[cfg.entry.id].add(s)
        parent[(cfg.entry.id, s)] = None
        q.append((cfg.entry, s))
    exits = set()
    count = 0
    while q:
        n, s = q.popleft()
        count += 1
        if count > max_states:
            raise RuntimeError("typestate: state explosion")
        if n is cfg.exit:
            exits.add(s)
            continue
        for s2 in node_fn(n, s):
            for m, lab in n.succ:
                s3 = edge_fn(n, lab, s2) if edge_fn else s2
                if s3 is KILL:
                    continue
                if s3 not in at[m.id]:
                    at[m.id].add(s3)
                    parent[(m.id, s3)] = (n.id, s)
                    q.append((m, s3))
    return at, exits, parent


def witness_path(cfg: CFG, parent: dict, node_id: int, state) -> list[str]:
    out = []
    cur = (node_id, state)
    guard = 0
    while cur is not None and guard < 500:
        guard += 1
        n = cfg.nodes[cur[0]]
        if n.kind not in ("entry",):
            out.append(f"L{n.lineno}:{n.kind}:{n.label[:70]} [{cur[1]}]")
        cur = parent.get(cur)
    return list(reversed(out))


def enumerate_paths(cfg: CFG, max_paths: int = 5000, loop_bound: int = 2):
    """Acyclic-ish path enumeration: every node may appear at most `loop_bound` times per path.
    Yields lists of (node, out_label)."""
    out = []
    stack = [(cfg.entry, [], {})]
    while stack:
        n, path, counts = stack.pop()
        if n is cfg.exit:
            out.append(path)
            if len(out) > max_paths:
                raise RuntimeError("too many paths")
            continue
        c = counts.get(n.id, 0)
        if c >= loop_bound:
            continue
        counts2 = dict(counts)
        counts2[n.id] = c + 1
        for m, lab in n.succ:
            stack.append((m, path + [(n, lab)], counts2))
    return out
